(* TypedThm.v — proofs about Typed.v (C11: every value admitted by an annotation is accepted by the encoder). *)
From Coq Require Import NArith ZArith List Bool Lia.
Import ListNotations.
Require Import OPC.gen.GenKinds OPC.Uni OPC.Names OPC.NamesThm OPC.Codec OPC.MapsThm OPC.CodecThm OPC.Types OPC.TypesThm OPC.Typed.
Open Scope N_scope.

(* ================================================================== unfolding equations *)
Definition lookf (name : str) : list (str * pv) -> option pv :=
  fix look (fs : list (str * pv)) : option pv :=
    match fs with [] => None | (n, v) :: r => if str_eqb n name then Some v else look r end.

Lemma lookf_hit n v fs : lookf n ((n, v) :: fs) = Some v.
Proof. simpl. now rewrite str_eqb_refl. Qed.

Lemma lookf_skip n n' v fs : n' <> n -> lookf n ((n', v) :: fs) = lookf n fs.
Proof. intro H. simpl. now rewrite (str_eqb_neq n' n H). Qed.

Lemma wt_props_cons w n req k ps fs :
  wt_props w ((n, (req, k)) :: ps) fs =
  match lookf n fs with Some v => wt_field w k req v && wt_props w ps fs | None => false end.
Proof. reflexivity. Qed.

Lemma enc_props_cons e n req k ps fs :
  enc_props e ((n, (req, k)) :: ps) fs =
  match lookf n fs with
  | None => None
  | Some v => match enc_field e k req v with
              | None => None
              | Some o => match enc_props e ps fs with
                          | None => None
                          | Some r => Some (match o with Some j => (n, j) :: r | None => r end)
                          end
              end
  end.
Proof. reflexivity. Qed.

Lemma wt_props_skip w n v fs ps : ~ In n (map fst ps) -> wt_props w ps ((n, v) :: fs) = wt_props w ps fs.
Proof.
  induction ps as [|[n' [req k]] ps IH]; intro H; [reflexivity|]. rewrite !wt_props_cons. simpl in H.
  rewrite lookf_skip by (intro; subst; apply H; now left). rewrite IH by tauto. reflexivity.
Qed.

Lemma wt_unset T f : forall k, wt T f k PUnset = false.
Proof.
  induction f as [|f IH]; intro k; [reflexivity|]. cbn [wt]. destruct k; try reflexivity.
  cbn [wt_step]. induction ms as [|m ms IHms]; simpl; [reflexivity|]. now rewrite IH.
Qed.

Lemma wt_field_cases w k req v : wt_field w k req v = true -> (v = PUnset /\ req = false) \/ (v <> PUnset /\ w k v = true).
Proof.
  destruct v; simpl; intro H; try (right; split; [discriminate|exact H]).
  left. split; auto. now destruct req.
Qed.

Lemma wt_field_of_wt T f k req v : wt T f k v = true -> wt_field (wt T f) k req v = true.
Proof. intro H. destruct v; auto. rewrite wt_unset in H. discriminate. Qed.

(* ================================================================== a well-typed value is an instance of the annotation *)
Theorem wt_inhabits : forall T f k v, wt T f k v = true -> inhabits v (type_of k true) = true.
Proof.
  intros T. induction f as [|f IH]; intros k v H; [discriminate H|].
  cbn [wt] in H. destruct k; cbn [wt_step] in H.
  - reflexivity.
  - destruct v as [|j| | | | | |]; try discriminate H. destruct j; try discriminate H. reflexivity.
  - destruct v as [|j| | | | | |]; try discriminate H. destruct j; try discriminate H. reflexivity.
  - destruct v as [|j| | | | | |]; try discriminate H. destruct j; try discriminate H; reflexivity.
  - destruct v as [|j| | | | | |]; try discriminate H. destruct j; try discriminate H; reflexivity.
  - destruct v as [|j| | | | | |]; try discriminate H. destruct j; try discriminate H. reflexivity.
  - destruct v; try discriminate H; reflexivity.
  - destruct v; try discriminate H; reflexivity.
  - destruct v; try discriminate H; reflexivity.
  - discriminate H.
  - destruct v as [|j| | | | | |]; try discriminate H.
    change (existsb (py_scalar_eqb j) [c] = true). cbn [existsb]. now rewrite H.
  - destruct v as [| | | | |c' x| |]; try discriminate H. apply andb_true_iff in H as [H _]. exact H.
  - destruct v as [|j| | | | | |]; try discriminate H. exact H.
  - rewrite type_of_list. cbn [inhabits]. destruct v as [|j| | | | |l|]; try discriminate H.
    + destruct j; try discriminate H. rewrite forallb_forall in H |- *. intros x Hx. apply IH. auto.
    + rewrite forallb_forall in H |- *. intros x Hx. apply IH. auto.
  - rewrite inh_type_of. cbn [alts]. rewrite existsb_flat_map'.
    apply existsb_exists in H as (m & Hin & Hm). apply existsb_exists. exists m. split; auto.
    apply IH in Hm. now rewrite inh_type_of in Hm.
  - destruct v as [| | | | | | |c' fs ad]; try discriminate H. destruct (get_class T cls); [|discriminate H].
    apply andb_true_iff in H as [H _]. apply andb_true_iff in H as [H _]. exact H.
Qed.

(* ================================================================== a JSON-tag classification of run-time values *)
Definition vtag (v : pv) : jtag :=
  match v with
  | PUnset => TNull
  | PJ j => tag_of j
  | PDate _ | PDateTime _ | PUuid _ => TStr
  | PEnum _ x => tag_of x
  | PList _ => TArr
  | PObj _ _ _ => TObj
  end.

(* a member passing the isinstance test either has the value's tag or is an enum class, whose transform (.value) cannot fail *)
Lemma inst_tag T g m v : inst_match m v = true -> tagin (vtag v) (ktags m) = true \/ exists j, enc T (S g) m v = Some j.
Proof.
  intro H. destruct m; try destruct vt; destruct v as [|j|s|s|s|c0 x|l|c0 fs ad]; try discriminate H;
    try (destruct j; try discriminate H); try (destruct x; try discriminate H);
    try (left; reflexivity); right; eexists; reflexivity.
Qed.

Lemma typed_py_mem vt vals j : forallb (vty_of_json vt) vals = true -> existsb (py_scalar_eqb j) vals = true ->
  exists x, vty_of_json vt x = true /\ py_scalar_eqb j x = true.
Proof.
  intros H1 H2. rewrite forallb_forall in H1. apply existsb_exists in H2 as (x & Hx & He). eauto.
Qed.

(* a value well-typed for a transforming member has one of its tags and passes its isinstance test *)
Lemma wt_tag_inst T w m v : has_transform m = true -> (forall ms, m <> KUnion ms) -> k_ok m = true ->
  wt_step T w m v = true -> tagin (vtag v) (ktags m) = true /\ inst_match m v = true.
Proof.
  intros Ht Hnu Hk H. destruct m; try discriminate Ht; cbn [wt_step] in H.
  - destruct v; try discriminate H; split; reflexivity.
  - destruct v; try discriminate H; split; reflexivity.
  - destruct v; try discriminate H; split; reflexivity.
  - discriminate H.
  - destruct v as [| | | | |c' x| |]; try discriminate H. apply andb_true_iff in H as [Hc Hx].
    simpl in Hk. apply (typed_mem vt) in Hx as [_ Hty]; auto. split; [|exact Hc].
    destruct vt, x; try discriminate Hty; reflexivity.
  - destruct v as [|j| | | | | |]; try discriminate H. simpl in Hk.
    destruct (typed_py_mem vt vals j Hk H) as (x & Hty & He).
    destruct vt, x; try discriminate Hty; destruct j; try discriminate He; split; reflexivity.
  - destruct v as [|j| | | | |l|]; try discriminate H; [destruct j; try discriminate H|]; split; reflexivity.
  - exfalso. eapply Hnu. reflexivity.
  - destruct v as [| | | | | | |c' fs ad]; try discriminate H. destruct (get_class T cls); [|discriminate H].
    apply andb_true_iff in H as [H _]. apply andb_true_iff in H as [H _]. split; [reflexivity|exact H].
Qed.

Lemma wt_nt_pj T w m v : has_transform m = false -> wt_step T w m v = true -> exists j, v = PJ j.
Proof.
  intros Ht H. destruct m; try discriminate Ht; cbn [wt_step] in H; destruct v; try discriminate H; eauto.
Qed.

(* raw JSON well-typed for a pass-through member: another member's isinstance test passes only for a literal enum (copied
   unchanged) or for a list member, which then overlaps *)
Lemma nt_other T g w mi m j : has_transform mi = false -> wt_step T w mi (PJ j) = true ->
  has_transform m = true -> inst_match m (PJ j) = true ->
  (exists j', enc T (S g) m (PJ j) = Some j') \/
  (tagin (tag_of j) (ktags mi) = true /\ tagin (tag_of j) (ktags m) = true).
Proof.
  intros Hnt Hw Ht Hi. destruct m; try discriminate Ht; try discriminate Hi.
  - left. eexists. reflexivity.
  - destruct j; try discriminate Hi. right. split; [|reflexivity].
    destruct mi; try discriminate Hnt; cbn [wt_step] in Hw; try discriminate Hw; try reflexivity.
Qed.

(* ================================================================== generic loops *)
Lemma map_opt_all {A B} (ff : A -> option B) l : (forall x, In x l -> exists y, ff x = Some y) -> exists r, map_opt ff l = Some r.
Proof.
  induction l as [|x l IH]; intro H; simpl; [eauto|].
  destruct (H x (or_introl eq_refl)) as (y & ->). destruct IH as (r & ->); [intros; apply H; now right|]. eauto.
Qed.

Lemma map_opt_snd_all {A B} (ff : A -> option B) (l : list (str * A)) :
  (forall k x, In (k, x) l -> exists y, ff x = Some y) -> exists r, map_opt_snd ff l = Some r.
Proof.
  induction l as [|[k x] l IH]; intro H; simpl; [eauto|].
  destruct (H k x (or_introl eq_refl)) as (y & ->). destruct IH as (r & ->); [intros; eapply H; right; eauto|]. eauto.
Qed.

Section UnionEnc.
  Variable e : pk -> pv -> option json.

  Lemma enc_hit' pre mi post v :
    (forall m, In m pre -> has_transform m = true -> inst_match m v = true -> exists j, e m v = Some j) ->
    has_transform mi = true -> inst_match mi v = true -> (exists j, e mi v = Some j) ->
    forall hi un, exists j, enc_union_loop e (pre ++ mi :: post) hi un v = Some j.
  Proof.
    intros Hpre Ht Hi He. induction pre as [|m pre IH]; intros hi un.
    - simpl app. rewrite enc_union_loop_cons, Ht, Hi. cbn [negb]. now destruct (_ || un).
    - rewrite <- app_comm_cons, enc_union_loop_cons.
      destruct (has_transform m) eqn:Etm; cbn [negb].
      + rewrite is_nil_app by discriminate. cbn [negb]. rewrite orb_true_r. cbn [orb].
        destruct (inst_match m v) eqn:Eim.
        * apply Hpre; auto. now left.
        * apply IH. intros; apply Hpre; auto. now right.
      + apply IH. intros; apply Hpre; auto. now right.
  Qed.

  Lemma enc_pj' ms j :
    (forall m, In m ms -> has_transform m = true -> inst_match m (PJ j) = true -> exists j', e m (PJ j) = Some j') ->
    forall hi un, (un = true \/ exists m, In m ms /\ has_transform m = false) ->
    exists j', enc_union_loop e ms hi un (PJ j) = Some j'.
  Proof.
    induction ms as [|m rest IH]; intros Hin hi un Hun; [simpl; eauto|]. rewrite enc_union_loop_cons.
    destruct (has_transform m) eqn:Et; cbn [negb].
    - destruct (negb hi || negb (is_nil rest) || un) eqn:Ec.
      + destruct (inst_match m (PJ j)) eqn:Ei; [apply Hin; auto; now left|].
        apply IH; [intros; apply Hin; auto; now right|].
        destruct Hun as [?|(m' & [<-|Hm'] & Ht')]; auto; [congruence|]. right. eauto.
      + exfalso. apply orb_false_iff in Ec as [Ec Eu]. apply orb_false_iff in Ec as [_ Ec].
        destruct rest; [|discriminate Ec].
        destruct Hun as [?|(m' & [<-|[]] & Ht')]; congruence.
    - apply IH; [intros; apply Hin; auto; now right|]. now left.
  Qed.
End UnionEnc.

(* ================================================================== the encoder accepts well-typed values: one level *)
Definition enc_good T g k v :=
  (exists j, enc T g k v = Some j) /\ forall req, exists j, enc_field (enc T g) k req v = Some (Some j).

Lemma enc_good_intro T g k v j : (forall ms, k <> KUnion ms) -> enc T g k v = Some j -> enc_good T g k v.
Proof. intros Hn He. split; [eauto|]. intro req. exists j. now apply field_of_enc. Qed.

Section LevelE.
  Variables (T : ctable) (f : nat).
  Hypothesis HT : table_ok T = true.
  Hypothesis IH : forall g k v, (f <= g)%nat -> k_ok k = true -> wt T f k v = true -> enc_good T g k v.

  Lemma IHe g k v : (f <= g)%nat -> k_ok k = true -> wt T f k v = true -> exists j, enc T g k v = Some j.
  Proof. intros Hg Hk Hw. now destruct (IH g k v Hg Hk Hw). Qed.

  Lemma klist_enc g inner v : (f <= g)%nat -> k_ok inner = true -> wt T (S f) (KList inner) v = true ->
    enc_good T (S g) (KList inner) v.
  Proof.
    intros Hg Hk Hw. cbn [wt wt_step] in Hw.
    assert (He: exists j, enc T (S g) (KList inner) v = Some j).
    { cbn [enc]. rewrite enc_step_list. destruct (has_transform inner) eqn:Et.
      - destruct v as [|j| | | | |l|]; try discriminate Hw; [destruct j; try discriminate Hw|]; cbn [items].
        + destruct (map_opt_all (enc T g inner) (map PJ l)) as (r & ->); [|simpl; eauto].
          intros x Hx. apply in_map_iff in Hx as (y & <- & Hy). rewrite forallb_forall in Hw. apply IHe; auto.
        + destruct (map_opt_all (enc T g inner) l) as (r & ->); [|simpl; eauto].
          intros x Hx. rewrite forallb_forall in Hw. apply IHe; auto.
      - destruct v as [|j| | | | |l|]; try discriminate Hw; [simpl; eauto|].
        rewrite plain_list. destruct (map_opt_all plain l) as (r & ->); [|simpl; eauto].
        intros x Hx. rewrite forallb_forall in Hw. destruct (IHe g inner x Hg Hk (Hw x Hx)) as (y & Hy).
        exists y. eapply enc_plain; eauto. }
    destruct He as (j & He). eapply enc_good_intro; eauto. intros ms; discriminate.
  Qed.

  (* ---------------- model classes *)
  Lemma field_enc g k req v : (f <= g)%nat -> k_ok k = true -> wt_field (wt T f) k req v = true ->
    exists o, enc_field (enc T g) k req v = Some o /\ (o = None <-> v = PUnset).
  Proof.
    intros Hg Hk Hw. apply wt_field_cases in Hw as [[-> ->]|[Hv Hw]].
    - exists None. split; [apply unset_not_encoded_aux|tauto].
    - destruct (IH g k v Hg Hk Hw) as [_ Hf]. destruct (Hf req) as (j & Hj). exists (Some j). split; auto.
      split; [discriminate|contradiction].
  Qed.

  Lemma props_enc g : (f <= g)%nat -> forall ps fs, forallb (fun p => k_ok (snd (snd p))) ps = true ->
    wt_props (wt T f) ps fs = true -> exists kvs, enc_props (enc T g) ps fs = Some kvs.
  Proof.
    intro Hg. induction ps as [|[n [req k]] ps IHps]; intros fs Hk Hw; [simpl; eauto|].
    cbn [forallb snd] in Hk. apply andb_true_iff in Hk as [Hk1 Hk2].
    rewrite wt_props_cons in Hw. rewrite enc_props_cons.
    destruct (lookf n fs) as [v|]; [|discriminate Hw]. apply andb_true_iff in Hw as [Hw1 Hw2].
    destruct (field_enc g k req v Hg Hk1 Hw1) as (o & -> & _).
    destruct (IHps fs Hk2 Hw2) as (kvs & ->). eauto.
  Qed.

  Lemma kmodel_enc g c v : (f <= g)%nat -> wt T (S f) (KModel c) v = true -> enc_good T (S g) (KModel c) v.
  Proof.
    intros Hg Hw. cbn [wt wt_step] in Hw.
    destruct v as [| | | | | | |c' fs ad]; try discriminate Hw.
    destruct (get_class T c) as [cd|] eqn:Ec; [|discriminate Hw].
    apply andb_true_iff in Hw as [Hw Had]. apply andb_true_iff in Hw as [Hc Hwp].
    apply N.eqb_eq in Hc. subst c'.
    pose proof (table_cdef T c cd HT Ec) as Hcd. unfold cdef_ok in Hcd.
    apply andb_true_iff in Hcd as [Hcd Hak]. apply andb_true_iff in Hcd as [Hkp _].
    destruct (props_enc g Hg (c_props cd) fs Hkp Hwp) as (kvs & Hep).
    assert (Hbase: exists b, match c_addl cd with
                             | None => Some []
                             | Some ak => if has_transform ak then map_opt_snd (enc T g ak) ad else map_opt_snd plain ad
                             end = Some b).
    { destruct (c_addl cd) as [ak|]; [|eauto].
      rewrite forallb_forall in Had.
      destruct (has_transform ak) eqn:Et; apply map_opt_snd_all; intros k x Hin;
        destruct (IHe g ak x Hg Hak (Had (k, x) Hin)) as (y & Hy); exists y; auto.
      eapply enc_plain; eauto. }
    destruct Hbase as (b & Hbase).
    eapply enc_good_intro; [intros ms; discriminate|].
    cbn [enc]. rewrite enc_step_model. unfold enc_obj. rewrite Ec, Hep. cbv zeta. rewrite Hbase. reflexivity.
  Qed.

  (* ---------------- unions *)
  Lemma union_enc g ms v : (f <= g)%nat -> k_ok (KUnion ms) = true -> existsb (fun m => wt T f m v) ms = true ->
    forall hi un, exists j, enc_union_loop (enc T g) ms hi un v = Some j.
  Proof.
    intros Hg Hk Hw. apply existsb_exists in Hw as (mi & Hin & Hw).
    destruct (k_ok_union ms Hk) as (_ & Hpd & Hmem).
    destruct (Hmem mi Hin) as [Hnu Hkmi].
    pose proof (IHe g mi v Hg Hkmi Hw) as Hemi.
    apply in_split in Hin as (pre & post & ->).
    rewrite map_app in Hpd. cbn [map] in Hpd. apply pd_split in Hpd as [Hpre Hpost].
    destruct f as [|f']; [discriminate Hw|]. destruct g as [|g']; [lia|].
    cbn [wt] in Hw.
    destruct (has_transform mi) eqn:Etm.
    - destruct (wt_tag_inst T _ mi v Etm Hnu Hkmi Hw) as [Htag Hinst].
      apply enc_hit'; auto.
      intros m Hm _ Hi. destruct (inst_tag T g' m v Hi) as [Ht|He]; auto. exfalso.
      rewrite (tags_disjoint_r (ktags m) (ktags mi) (vtag v)) in Ht; [discriminate| |exact Htag].
      apply Hpre, in_map, Hm.
    - destruct (wt_nt_pj T _ mi v Etm Hw) as (j & ->). intros hi un. apply enc_pj'.
      + intros m Hm Ht Hi.
        assert (Hdis: tagin (tag_of j) (ktags mi) = true -> tagin (tag_of j) (ktags m) = false).
        { intro Hti. apply in_app_or in Hm as [Hm|[<-|Hm]].
          - eapply tags_disjoint_r; [apply Hpre, in_map, Hm | exact Hti].
          - congruence.
          - eapply tags_disjoint_l; [apply Hpost, in_map, Hm | exact Hti]. }
        destruct (nt_other T g' _ mi m j Etm Hw Ht Hi) as [He|[H1 H2]]; auto.
        rewrite (Hdis H1) in H2. discriminate.
      + right. exists mi. split; auto. apply in_or_app. right. now left.
  Qed.

  Lemma kunion_enc g ms v : (f <= g)%nat -> k_ok (KUnion ms) = true -> wt T (S f) (KUnion ms) v = true ->
    enc_good T (S g) (KUnion ms) v.
  Proof.
    intros Hg Hk Hw. assert (Hv: v <> PUnset) by (intros ->; rewrite wt_unset in Hw; discriminate).
    cbn [wt wt_step] in Hw. split.
    - cbn [enc]. rewrite enc_step_union. now apply union_enc.
    - intro req. unfold enc_field. change (has_transform (KUnion ms)) with true. cbv iota.
      assert (Hg': (f <= S g)%nat) by lia.
      destruct (union_enc (S g) ms v Hg' Hk Hw (negb req) false) as (j & Hj).
      exists j. destruct v; [congruence|..]; rewrite Hj; reflexivity.
  Qed.
End LevelE.

Theorem enc_strong T : table_ok T = true ->
  forall f g k v, (f <= g)%nat -> k_ok k = true -> wt T f k v = true -> enc_good T g k v.
Proof.
  intro HT. induction f as [|f IHf]; intros g k v Hg Hk Hw; [discriminate Hw|].
  destruct g as [|g]; [lia|]. assert (Hg': (f <= g)%nat) by lia.
  destruct k; try (cbn [wt wt_step] in Hw;
    destruct v as [|j|s|s|s|c' x|l|c' fs ad]; try discriminate Hw;
    (eapply enc_good_intro; [intros ms; discriminate|reflexivity])).
  - apply (klist_enc T f IHf); auto.
  - apply (kunion_enc T f IHf); auto.
  - apply (kmodel_enc T f HT IHf); auto.
Qed.

(* the encoder accepts every well-typed value: to_dict / transform never raises on it and yields plain JSON *)
Theorem annotation_accepted_by_encoder : forall T f k v,
  table_ok T = true -> k_ok k = true -> wt T f k v = true -> exists j, enc T f k v = Some j.
Proof.
  intros T f k v HT Hk Hw. now destruct (enc_strong T HT f f k v (le_n f) Hk Hw).
Qed.

(* ... and as an attribute (optional attributes may also hold UNSET, which is omitted) *)
Theorem field_accepted_by_encoder : forall T f k req v,
  table_ok T = true -> k_ok k = true -> wt_field (wt T f) k req v = true ->
  exists o, enc_field (enc T f) k req v = Some o /\ (o = None <-> v = PUnset).
Proof.
  intros T f k req v HT Hk Hw. apply (field_enc T f (enc_strong T HT f)); auto.
Qed.

(* ================================================================== what the decoder produces is well-typed: one level *)
Section LevelD.
  Variables (orc : oracles) (T : ctable) (f : nat).
  Hypothesis HT : table_ok T = true.
  Hypothesis IH : forall k j v, k_ok k = true -> wf_json j = true -> valid orc T f k j = true ->
    dec orc T f k j = Some v -> wt T f k v = true.

  Lemma list_wt inner : k_ok inner = true -> forall l vs, forallb wf_json l = true -> forallb (valid orc T f inner) l = true ->
    map_opt (dec orc T f inner) l = Some vs -> forallb (wt T f inner) vs = true.
  Proof.
    intro Hk. induction l as [|x l IHl]; intros vs Hw Hv Hd; simpl in Hd.
    - injection Hd as <-. reflexivity.
    - cbn [forallb] in Hw, Hv. apply andb_true_iff in Hw as [Hw1 Hw2]. apply andb_true_iff in Hv as [Hv1 Hv2].
      destruct (dec orc T f inner x) as [y|] eqn:Ey; [|discriminate Hd].
      destruct (map_opt (dec orc T f inner) l) as [r|] eqn:Er; [|discriminate Hd]. injection Hd as <-.
      cbn [forallb]. rewrite (IH inner x y Hk Hw1 Hv1 Ey), (IHl r Hw2 Hv2 eq_refl). reflexivity.
  Qed.

  Lemma pj_wt k x : has_construct k = false -> k_ok k = true -> wf_json x = true -> valid orc T f k x = true ->
    wt T f k (PJ x) = true.
  Proof.
    intros Hc Hk Hw Hv. apply (IH k x (PJ x) Hk Hw Hv).
    destruct f as [|f']; [discriminate Hv|]. cbn [dec]. now apply dec_step_pass.
  Qed.

  Lemma list_pj_wt inner : has_construct inner = false -> k_ok inner = true -> forall l, forallb wf_json l = true ->
    forallb (valid orc T f inner) l = true -> forallb (fun x => wt T f inner (PJ x)) l = true.
  Proof.
    intros Hc Hk. induction l as [|x l IHl]; intros Hw Hv; [reflexivity|].
    cbn [forallb] in Hw, Hv |- *. apply andb_true_iff in Hw as [Hw1 Hw2]. apply andb_true_iff in Hv as [Hv1 Hv2].
    rewrite (IHl Hw2 Hv2), andb_true_r. now apply pj_wt.
  Qed.

  Lemma union_wt ms j v : k_ok (KUnion ms) = true -> wf_json j = true ->
    existsb (fun m => valid orc T f m j) ms = true -> dec_union (dec orc T f) ms j = Some v ->
    existsb (fun m => wt T f m v) ms = true.
  Proof.
    intros Hk Hw Hv Hd. unfold dec_union in Hd.
    apply existsb_exists in Hv as (mi & Hin & Hv).
    destruct f as [|f'] eqn:Ef; [discriminate Hv|].
    destruct (existsb is_knone ms && json_eqb j JNull) eqn:Esc.
    - injection Hd as <-. apply andb_true_iff in Esc as [Hn _].
      apply existsb_exists in Hn as (m & Hin' & Hm). apply existsb_exists. exists m. split; auto.
      destruct m; try discriminate Hm. reflexivity.
    - clear Esc. assert (Hin0 := Hin).
      destruct (k_ok_union ms Hk) as (_ & Hpd & Hmem).
      destruct (Hmem mi Hin) as [Hnu Hkmi].
      assert (Hgoal: wt T (S f') mi v = true -> existsb (fun m => wt T (S f') m v) ms = true).
      { intro Hi. apply existsb_exists. exists mi. split; auto. }
      apply in_split in Hin as (pre & post & ->).
      rewrite map_app in Hpd. cbn [map] in Hpd. apply pd_split in Hpd as [Hpre Hpost].
      pose proof (valid_tag orc T f' mi j Hkmi Hv) as Htag.
      assert (Hoffpre: forall m, In m pre -> off j m).
      { intros m Hm. unfold off. eapply tags_disjoint_r; [apply Hpre, in_map, Hm | exact Htag]. }
      assert (Hoffpost: forall m, In m post -> off j m).
      { intros m Hm. unfold off. eapply tags_disjoint_l; [apply Hpost, in_map, Hm | exact Htag]. }
      rewrite dec_skip in Hd by (try discriminate; auto).
      apply Hgoal. apply (IH mi j v Hkmi Hw Hv).
      destruct (has_construct mi) eqn:Ecm.
      + destruct (rt_strong orc T HT (S f') (S f') mi j (le_n _) Hkmi Hw Hv) as (v' & Hd' & _).
        rewrite (dec_hit (dec orc T (S f')) mi post _ j v' Ecm) in Hd; auto.
        * now injection Hd as <-.
        * intro Hc. eapply valid_check; eauto.
      + rewrite dec_union_loop_cons, Ecm in Hd. cbn [negb] in Hd. rewrite dec_skip_end in Hd by exact Hoffpost.
        injection Hd as <-. cbn [dec]. now apply dec_step_pass.
  Qed.

  (* ---------------- model classes *)
  Lemma field_wt k req s v : k_ok k = true ->
    match s with Some j => wf_json j = true /\ valid orc T f k j = true | None => True end ->
    dec_field (dec orc T f) k req s = Some v -> wt_field (wt T f) k req v = true.
  Proof.
    intros Hk Hs Hd. destruct s as [j|].
    - destruct Hs as [Hw Hv].
      assert (Hgen: dec orc T f k j = Some v -> wt_field (wt T f) k req v = true).
      { intro H. apply wt_field_of_wt. eapply IH; eauto. }
      unfold dec_field in Hd. destruct k; auto.
      destruct (has_construct (KList k) && has_construct k && negb req && falsy j) eqn:Ec; auto.
      injection Hd as <-. destruct f as [|f']; [discriminate Hv|]. reflexivity.
    - unfold dec_field in Hd. destruct req; [discriminate Hd|]. injection Hd as <-. reflexivity.
  Qed.

  Lemma props_wt : forall ps m rest fs rest',
    forallb (fun kv => wf_json (snd kv)) m = true ->
    forallb (fun p => k_ok (snd (snd p))) ps = true -> names_distinct ps = true ->
    valid_props (valid orc T f) ps m = Some rest -> dec_props (dec orc T f) ps m = Some (fs, rest') ->
    wt_props (wt T f) ps fs = true /\ rest' = rest.
  Proof.
    induction ps as [|[n [req k]] ps IHps]; intros m rest fs rest' Hw Hk Hn Hv Hd.
    - simpl in Hv, Hd. injection Hv as <-. injection Hd as <- <-. auto.
    - rewrite names_distinct_cons in Hn. apply andb_true_iff in Hn as [Hn1 Hn2].
      apply negb_true_iff in Hn1. apply existsb_str_notIn in Hn1.
      cbn [forallb snd] in Hk. apply andb_true_iff in Hk as [Hk1 Hk2].
      cbn [valid_props] in Hv. cbn [dec_props] in Hd.
      destruct (dec_field (dec orc T f) k req (m_get n m)) as [v0|] eqn:Edf; [|discriminate Hd].
      destruct (dec_props (dec orc T f) ps (m_del n m)) as [[fs' r']|] eqn:Edp; [|discriminate Hd].
      injection Hd as <- <-.
      assert (Hf: wt_field (wt T f) k req v0 = true).
      { apply (field_wt k req (m_get n m)); auto.
        destruct (m_get n m) as [j|] eqn:Eg; [|exact I]. split.
        - rewrite forallb_forall in Hw. apply (Hw (n, j)). now apply m_get_In.
        - destruct (valid orc T f k j); [reflexivity|discriminate Hv]. }
      rewrite wt_props_cons, lookf_hit, Hf, wt_props_skip by exact Hn1. cbn [andb].
      destruct (m_get n m) as [j|] eqn:Eg.
      + destruct (valid orc T f k j); [|discriminate Hv].
        eapply (IHps (m_del n m)); eauto.
        rewrite forallb_forall in Hw |- *. intros x Hx. apply Hw. eapply m_del_In; eauto.
      + destruct req; [discriminate Hv|]. rewrite (m_del_absent n m Eg) in Edp. eapply (IHps m); eauto.
  Qed.

  Lemma addl_wt ak : k_ok ak = true -> forall rest ad, (forall k x, In (k, x) rest -> wf_json x = true) ->
    forallb (fun kv => valid orc T f ak (snd kv)) rest = true ->
    map_opt_snd (dec orc T f ak) rest = Some ad -> forallb (fun kv => wt T f ak (snd kv)) ad = true.
  Proof.
    intro Hk. induction rest as [|[k x] rest IHr]; intros ad Hw Hv Hd; simpl in Hd.
    - injection Hd as <-. reflexivity.
    - cbn [forallb snd] in Hv. apply andb_true_iff in Hv as [Hv1 Hv2].
      destruct (dec orc T f ak x) as [y|] eqn:Ey; [|discriminate Hd].
      destruct (map_opt_snd (dec orc T f ak) rest) as [r|] eqn:Er; [|discriminate Hd]. injection Hd as <-.
      cbn [forallb snd]. rewrite (IH ak x y Hk (Hw k x (or_introl eq_refl)) Hv1 Ey). cbn [andb].
      apply IHr; auto. intros k' x' Hin. eapply Hw. right. eauto.
  Qed.

  Lemma kmodel_wt c j v : wf_json j = true -> valid orc T (S f) (KModel c) j = true ->
    dec orc T (S f) (KModel c) j = Some v -> wt T (S f) (KModel c) v = true.
  Proof.
    intros Hw Hv Hd. cbn [valid valid_step] in Hv. cbn [dec] in Hd. rewrite dec_step_model, dec_model_eq in Hd.
    destruct (get_class T c) as [cd|] eqn:Ec; [|discriminate Hv].
    destruct (trivial_class cd) eqn:Etr.
    - injection Hd as <-. unfold trivial_class in Etr.
      destruct (c_props cd) eqn:Ep; [|discriminate Etr]. destruct (c_addl cd) eqn:Ea; [discriminate Etr|].
      cbn [wt wt_step]. rewrite Ec, Ep, Ea, N.eqb_refl. reflexivity.
    - destruct j; try discriminate Hv. unfold dec_model_gen in Hd.
      destruct (valid_props (valid orc T f) (c_props cd) m) as [rest|] eqn:Evp; [|discriminate Hv].
      destruct (dec_props (dec orc T f) (c_props cd) m) as [[fs rest0]|] eqn:Edp; [|discriminate Hd].
      pose proof (table_cdef T c cd HT Ec) as Hcd. unfold cdef_ok in Hcd.
      apply andb_true_iff in Hcd as [Hcd Hak]. apply andb_true_iff in Hcd as [Hkp Hnd].
      rewrite wf_obj in Hw. apply andb_true_iff in Hw as [Hs Hwv].
      destruct (props_wt (c_props cd) m rest fs rest0 Hwv Hkp Hnd Evp Edp) as [Hwp ->].
      destruct (valid_props_sub _ _ _ _ Hs Evp) as [_ Hsub].
      assert (Hwr: forall k x, In (k, x) rest -> wf_json x = true).
      { intros k x Hin. rewrite forallb_forall in Hwv. apply (Hwv (k, x)). auto. }
      assert (Hfin: forall ad, match c_addl cd with
                               | Some ak => forallb (fun kv => wt T f ak (snd kv)) ad
                               | None => match ad with [] => true | _ => false end
                               end = true -> wt T (S f) (KModel c) (PObj c fs ad) = true).
      { intros ad Had. cbn [wt wt_step]. rewrite Ec, N.eqb_refl, Hwp. exact Had. }
      destruct (c_addl cd) as [ak|] eqn:Ea.
      + destruct (has_construct ak) eqn:Eca.
        * destruct (map_opt_snd (dec orc T f ak) rest) as [ad|] eqn:Em; [|discriminate Hd]. injection Hd as <-.
          apply Hfin. eapply addl_wt; eauto.
        * injection Hd as <-. apply Hfin. rewrite forallb_forall in Hv |- *.
          intros kv Hin. apply in_map_iff in Hin as ([k x] & <- & Hin). cbn [fst snd].
          apply pj_wt; auto; [eapply Hwr; eauto|]. apply (Hv (k, x) Hin).
      + injection Hd as <-. now apply Hfin.
  Qed.
End LevelD.

(* what the decoder produces from schema-valid data is well-typed (so the two directions compose) *)
Theorem decoded_is_well_typed : forall orc T f k j v,
  table_ok T = true -> k_ok k = true -> wf_json j = true ->
  valid orc T f k j = true -> dec orc T f k j = Some v -> wt T f k v = true.
Proof.
  intros orc T f k j v HT. revert k j v. induction f as [|f IHf]; intros k j v Hk Hw Hv Hd; [discriminate Hv|].
  destruct k.
  - cbn [dec] in Hd. rewrite dec_step_pass in Hd by reflexivity. injection Hd as <-. reflexivity.
  - cbn [dec] in Hd. rewrite dec_step_pass in Hd by reflexivity. injection Hd as <-. destruct j; try discriminate Hv. reflexivity.
  - cbn [dec] in Hd. rewrite dec_step_pass in Hd by reflexivity. injection Hd as <-. destruct j; try discriminate Hv. reflexivity.
  - cbn [dec] in Hd. rewrite dec_step_pass in Hd by reflexivity. injection Hd as <-. destruct j; try discriminate Hv. reflexivity.
  - cbn [dec] in Hd. rewrite dec_step_pass in Hd by reflexivity. injection Hd as <-. destruct j; try discriminate Hv; reflexivity.
  - cbn [dec] in Hd. rewrite dec_step_pass in Hd by reflexivity. injection Hd as <-. destruct j; try discriminate Hv. reflexivity.
  - cbn [dec] in Hd. rewrite dec_step_date in Hd. destruct j; try discriminate Hd. destruct (parse_date orc s); [|discriminate Hd].
    injection Hd as <-. reflexivity.
  - cbn [dec] in Hd. rewrite dec_step_datetime in Hd. destruct j; try discriminate Hd. destruct (parse_datetime orc s); [|discriminate Hd].
    injection Hd as <-. reflexivity.
  - cbn [dec] in Hd. rewrite dec_step_uuid in Hd. destruct j; try discriminate Hd. destruct (parse_uuid orc s); [|discriminate Hd].
    injection Hd as <-. reflexivity.
  - discriminate Hk.
  - cbn [dec] in Hd. rewrite dec_step_const in Hd. destruct (py_scalar_eqb j c) eqn:E; [|discriminate Hd]. injection Hd as <-.
    exact E.
  - cbn [dec] in Hd. rewrite dec_step_enum in Hd. cbn [valid valid_step] in Hv. simpl in Hk.
    destruct (typed_find vt vals j Hk Hv) as [Hf _]. rewrite Hf in Hd. injection Hd as <-.
    cbn [wt wt_step]. now rewrite N.eqb_refl, Hv.
  - cbn [dec] in Hd. rewrite dec_step_litenum in Hd. destruct (existsb (py_scalar_eqb j) vals) eqn:E; [|discriminate Hd].
    injection Hd as <-. exact E.
  - cbn [dec] in Hd. rewrite dec_step_list in Hd. cbn [valid valid_step] in Hv. destruct j; try discriminate Hv.
    rewrite wf_arr in Hw. cbn [k_ok] in Hk. destruct (has_construct k) eqn:Ec.
    + destruct (map_opt (dec orc T f k) l) as [vs|] eqn:Em; [|discriminate Hd]. injection Hd as <-.
      cbn [wt wt_step]. eapply (list_wt orc T f IHf); eauto.
    + injection Hd as <-. cbn [wt wt_step]. apply (list_pj_wt orc T f IHf); auto.
  - cbn [dec] in Hd. rewrite dec_step_union in Hd. cbn [valid valid_step] in Hv. cbn [wt wt_step].
    eapply (union_wt orc T f HT IHf); eauto.
  - apply (kmodel_wt orc T f HT IHf _ j); auto.
Qed.

(* ================================================================== concrete witnesses *)
(* the guard is necessary: anyOf[array of date, array of string] admits ["hello"] (a list of str) but to_dict raises *)
Theorem union_encoder_rejects_refuted : exists T f k v,
  table_ok T = true /\ k_ok k = false /\ wt T f k v = true /\ enc T f k v = None.
Proof.
  exists [], 3%nat, (KUnion [KList KDate; KList KStr]), (PList [PJ (JStr w_hello)]).
  repeat (split; [vm_compute; reflexivity|]). vm_compute; reflexivity.
Qed.

Definition w_v3 : pv :=
  Eval vm_compute in match dec w_orc w_T3 5 (KModel 1) w_j3 with Some v => v | None => PUnset end.

Example wt_nonvacuous : exists T f k v, table_ok T = true /\ k_ok k = true /\ wt T f k v = true /\
  (exists c fs ad, v = PObj c fs ad /\ 2 <= length fs)%nat.
Proof.
  exists w_T3, 5%nat, (KModel 1), w_v3.
  repeat (split; [vm_compute; reflexivity|]). do 3 eexists. split; [reflexivity|]. simpl. lia.
Qed.

(* the witness is accepted by the encoder, as the theorem says *)
Example wt_nonvacuous_run : exists j, enc w_T3 5 (KModel 1) w_v3 = Some j.
Proof. apply annotation_accepted_by_encoder; vm_compute; reflexivity. Qed.

Print Assumptions wt_inhabits.
Print Assumptions annotation_accepted_by_encoder.
Print Assumptions field_accepted_by_encoder.
Print Assumptions decoded_is_well_typed.
Print Assumptions union_encoder_rejects_refuted.
Print Assumptions wt_nonvacuous.
Print Assumptions wt_nonvacuous_run.
