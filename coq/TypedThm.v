(* TypedThm.v — proofs about Typed.v (C11: every value admitted by an annotation is accepted by the encoder). *)
From Coq Require Import NArith ZArith List Bool Lia.
Import ListNotations.
Require Import OPC.gen.GenKinds OPC.Uni OPC.Names OPC.NamesThm OPC.Codec OPC.MapsThm OPC.CodecThm OPC.Types OPC.TypesThm OPC.Typed.
Open Scope N_scope.

(* STATEMENTS TO PROVE (exactly as written; helper lemmas before them)

(* a well-typed value is an instance of the annotation *)
Theorem wt_inhabits : forall T f k v, wt T f k v = true -> inhabits v (type_of k true) = true.

(* the encoder accepts every well-typed value: to_dict / transform never raises on it and yields plain JSON *)
Theorem annotation_accepted_by_encoder : forall T f k v,
  table_ok T = true -> k_ok k = true -> wt T f k v = true -> exists j, enc T f k v = Some j.

(* ... and as an attribute (optional attributes may also hold UNSET, which is omitted) *)
Theorem field_accepted_by_encoder : forall T f k req v,
  table_ok T = true -> k_ok k = true -> wt_field (wt T f) k req v = true ->
  exists o, enc_field (enc T f) k req v = Some o /\ (o = None <-> v = PUnset).

(* what the decoder produces from schema-valid data is well-typed (so the two directions compose) *)
Theorem decoded_is_well_typed : forall orc T f k j v,
  table_ok T = true -> k_ok k = true -> wf_json j = true ->
  valid orc T f k j = true -> dec orc T f k j = Some v -> wt T f k v = true.

(* the guard is necessary: anyOf[array of date, array of string] admits ["hello"] (a list of str) but to_dict raises *)
Theorem union_encoder_rejects_refuted : exists T f k v,
  table_ok T = true /\ k_ok k = false /\ wt T f k v = true /\ enc T f k v = None.

Example wt_nonvacuous : exists T f k v, table_ok T = true /\ k_ok k = true /\ wt T f k v = true /\
  (exists c fs ad, v = PObj c fs ad /\ 2 <= length fs)%nat.
*)
