(* Norm.v — schema-level normalisations (C17): what the generator does to a schema before it becomes a property object.
   Model file: definitions only.
   - pre  = the pydantic `after` validators of schema/openapi_schema_pydantic/schema.py:164-208 (handle_nullable; the
            exclusiveMinimum/Maximum validator is the separate function hx below, its fields never reach the output)
   - build = property_from_data / _property_from_ref (parser/properties/__init__.py:60-310) with
            EnumProperty.build / LiteralEnumProperty.build null extraction (enum_property.py:72-118,
            literal_enum_property.py:71-117), UnionProperty.build (union.py:52-100: member order anyOf, oneOf, type list;
            member names <name>_type_<i>; flattening), ListProperty.build (<name>_item), class naming of inline enums / models
   - norm = build after pre; its result `tree` is the abstract property tree (kind, derived names, class names, member order,
            raw default handed to convert_value)
   - loader: _load_yaml_or_json / _get_document (openapi_python_client/__init__.py:330-362).
   Not modelled (other properties own them): the conversion of defaults (C13; the raw default is carried), enum member keys
   (C14), the properties inside an inline model (C15/graph; TModel is a leaf), the in-place growth of prefixItems when one array schema object is built twice, schema-state side effects
   (classes_by_name collisions, models_to_process). *)
From Coq Require Import NArith ZArith List Bool.
Import ListNotations.
Require Import OPC.gen.GenTables OPC.Uni OPC.Names OPC.PyLit OPC.Values OPC.Enums.
Open Scope N_scope.

(* ------------------------------------------------------------------ schema AST *)
Inductive jty := JString | JNumber | JInteger | JBoolean | JArray | JObject | JTNull.
Definition jty_eqb (a b : jty) : bool :=
  match a, b with
  | JString, JString | JNumber, JNumber | JInteger, JInteger | JBoolean, JBoolean
  | JArray, JArray | JObject, JObject | JTNull, JTNull => true
  | _, _ => false
  end.
Inductive tyspec := TyAbsent | TyOne (t : jty) | TyList (l : list jty).

(* keywords that only matter through their presence *)
Record other := { o_const : bool;            (* const present and not null *)
                  o_props : bool;            (* properties present and non-empty *)
                  o_title : option str;
                  o_extra : bool }.          (* marker: any further keyword (description, example, minimum, ...) *)
Definition o_none : other := {| o_const := false; o_props := false; o_title := None; o_extra := false |}.

Inductive sch :=
| SRef (r : str)
| SSch (ty : tyspec) (nullable : bool) (enum : list jval)       (* enum = [] : keyword absent (min_length=1 in the validator) *)
       (anyOf oneOf allOf : list sch) (items : option sch) (prefix : list sch)      (* prefix = prefixItems (3.1 tuple arrays) *)
       (fmt : option str) (dflt : option jval) (o : other).

(* ------------------------------------------------------------------ validators *)
Definition null_sch : sch := SSch (TyOne JTNull) false [] [] [] [] None [] None None o_none.
Definition mem_jty (t : jty) (l : list jty) : bool := existsb (jty_eqb t) l.

(* handle_nullable on one schema object whose children are already validated. The flag itself stays set (nothing reads it
   after validation: the harness checks that schema.py is the only reader), so a second run sees it again. *)
Definition hn (ty : tyspec) (nl : bool) (en : list jval) (any one all : list sch) (items : option sch) (pfx : list sch)
              (fmt : option str) (d : option jval) (o : other) : sch :=
  if negb nl then SSch ty nl en any one all items pfx fmt d o
  else match ty with
       | TyOne t => SSch (TyList [t; JTNull]) nl en any one all items pfx fmt d o
       | TyList l => SSch (TyList (if mem_jty JTNull l then l else l ++ [JTNull])) nl en any one all items pfx fmt d o
       | TyAbsent =>
           match one, any, all with
           | _ :: _, _, _ => SSch TyAbsent nl en any (one ++ [null_sch]) all items pfx fmt d o
           | [], _ :: _, _ => SSch TyAbsent nl en (any ++ [null_sch]) one all items pfx fmt d o
           | [], [], _ :: _ =>
               SSch TyAbsent nl en any [null_sch; SSch TyAbsent false [] [] [] all None [] None None o_none] [] items pfx fmt d o
           | [], [], [] => SSch TyAbsent nl en any one all items pfx fmt d o
           end
       end.

(* a schema nested inside another schema (properties, items, additionalProperties, anyOf/oneOf/allOf members): validated once *)
Fixpoint pre (s : sch) : sch :=
  match s with
  | SRef r => SRef r
  | SSch ty nl en any one all items pfx fmt d o =>
      hn ty nl en (map pre any) (map pre one) (map pre all) (option_map pre items) (map pre pfx) fmt d o
  end.

(* a schema held directly by a non-Schema object (components.schemas.<name>, the schema of a parameter, media type or header object):
   with the pinned pydantic the `after` validators run TWICE on that object (observed; its children are not revalidated) *)
Definition hn_again (s : sch) : sch :=
  match s with
  | SRef r => SRef r
  | SSch ty nl en any one all items pfx fmt d o => hn ty nl en any one all items pfx fmt d o
  end.
Definition pre_at (top : bool) (s : sch) : sch := if top then hn_again (pre s) else pre s.

(* handle_exclusive_min_max, one bound (the maximum is symmetric): 3.0 boolean form -> 3.1 numeric form *)
Inductive excl := XAbsent | XBool (b : bool) | XNum (x : Z).
Record bound := { b_lim : option Z; b_excl : excl }.
Definition hx (b : bound) : bound :=
  match b_excl b, b_lim b with
  | XBool true, Some m => {| b_lim := None; b_excl := XNum m |}
  | XBool false, Some _ => {| b_lim := b_lim b; b_excl := XAbsent |}
  | XNum x, _ => {| b_lim := None; b_excl := XNum x |}
  | _, _ => b
  end.

(* ------------------------------------------------------------------ the abstract property tree *)
Inductive leaf := LAny | LNone | LBool | LInt | LFloat | LStr | LDate | LDateTime | LUuid | LFile | LConst.
Inductive tree :=
| TErr                                                                  (* PropertyError *)
| TLeaf (k : leaf) (name : str) (d : option jval)
| TEnum (lit : bool) (name cls : str) (vt : vtype) (vals : list evalue) (d : option jval)
| TList (name : str) (inner : tree)
| TUnion (name : str) (ms : list tree) (d : option jval)
| TModel (name cls : str).

Definition is_err (t : tree) : bool := match t with TErr => true | _ => false end.

Record cfg := { literal_enums : bool; field_prefix : str }.
Definition env := str -> option tree.          (* schemas.classes_by_reference, keyed by the $ref text *)
Definition kid := str -> tree.                 (* a sub-schema waiting for the name it is built under *)
Definition envl (l : list (str * tree)) : env :=
  fun r => match find (fun kv => str_eqb r (fst kv)) l with Some kv => Some (snd kv) | None => None end.

(* ---- names ---- *)
Definition s_type_ : str := [95;116;121;112;101;95].
Definition s_item : str := [95;105;116;101;109].
Definition s_datetime : str := [100;97;116;101;45;116;105;109;101].
Definition s_date : str := [100;97;116;101].
Definition s_binary : str := [98;105;110;97;114;121].
Definition s_uuid : str := [117;117;105;100].

Definition sub_name (name : str) (i : nat) : str := name ++ s_type_ ++ dec_N (N.of_nat i).
Definition item_name (name : str) : str := name ++ s_item.

(* get_reference_simple_name: string.split("/")[-1] *)
Fixpoint last_seg (s acc : str) : str :=
  match s with [] => acc | c :: r => if c =? 47 then last_seg r [] else last_seg r (acc ++ [c]) end.

(* class of an inline enum / model: Class.from_string(pascal(parent) + pascal(title or name)) *)
Definition class_of (c : cfg) (parent : str) (o : other) (name : str) : str :=
  let basis := match o_title o with Some t => t | None => name end in
  let s := match parent with [] => basis | _ => pascal_case parent ++ pascal_case basis end in
  class_name (last_seg s []) (field_prefix c).

(* ---- _property_from_ref: the existing property renamed; evolve(existing, default=existing.convert_value(parent.default)): the
   default comes from the REFERRING schema only (none for a bare $ref); the referenced schema's own default is dropped ---- *)
Definition enum_default_ok (lit : bool) (cls : str) (vt : vtype) (vals : list evalue) (d : jval) : bool :=
  if lit then match conv_litenum vt vals d with Ok _ => true | _ => false end
  else match values_from_list vals with
       | Some members => match conv_enum vt cls members d with Ok _ => true | _ => false end
       | None => false
       end.

Definition from_ref (t : tree) (name : str) (d : option jval) : tree :=
  match t, d with
  | TErr, _ => TErr
  | TModel _ cls, None => TModel name cls
  | TModel _ _, Some _ => TErr                        (* ModelProperty cannot have a default value *)
  | TList _ inner, _ => TList name inner              (* ListProperty.convert_value returns None *)
  | TEnum lit _ cls vt vals _, None => TEnum lit name cls vt vals None
  | TEnum lit _ cls vt vals _, Some v => if enum_default_ok lit cls vt vals v then TEnum lit name cls vt vals (Some v) else TErr
  | TUnion _ ms _, _ => TUnion name ms d              (* first member that accepts converts it (C13) *)
  | TLeaf LFile _ _, Some _ => TErr
  | TLeaf LNone _ _, Some v => if jval_eqb v (JStr s_None) then TLeaf LNone name d else TErr
  | TLeaf k _ _, _ => TLeaf k name d
  end.

(* the default a built property carries (lists and models never carry one) *)
Definition tree_default (t : tree) : option jval :=
  match t with
  | TLeaf _ _ d | TEnum _ _ _ _ _ d | TUnion _ _ d => d
  | TErr | TList _ _ | TModel _ _ => None
  end.

Definition ref_build (e : env) (r : str) (name : str) (d : option jval) : tree :=
  match e r with None => TErr | Some t => from_ref t name d end.

(* ---- unions ---- *)
Fixpoint build_members (name : str) (i : nat) (ks : list kid) : list tree :=
  match ks with [] => [] | k :: r => k (sub_name name i) :: build_members name (S i) r end.

Fixpoint flat (t : tree) : list tree :=
  match t with TUnion _ ms _ => flat_map flat ms | _ => [t] end.

Definition union_build (name : str) (ks : list kid) (d : option jval) : tree :=
  let ms := build_members name 0 ks in
  if existsb is_err ms then TErr else TUnion name (flat_map flat ms) d.

(* ---- _string_based_property ---- *)
Definition string_based (fmt : option str) (name : str) (d : option jval) : tree :=
  match fmt with
  | Some f => if str_eqb f s_datetime then TLeaf LDateTime name d
              else if str_eqb f s_date then TLeaf LDate name d
              else if str_eqb f s_binary then TLeaf LFile name None
              else if str_eqb f s_uuid then TLeaf LUuid name d
              else TLeaf LStr name d
  | None => TLeaf LStr name d
  end.

Definition ty_is (ty : tyspec) (t : jty) : bool := match ty with TyOne u => jty_eqb u t | _ => false end.
Definition ty_is_list (ty : tyspec) : bool := match ty with TyList _ => true | _ => false end.
Definition nonempty {A : Type} (l : list A) : bool := match l with [] => false | _ => true end.

(* a member of items / prefixItems, waiting for (revalidated?, name): ListProperty.build wraps SEVERAL tuple members into a new
   Schema(anyOf=...); handing validated Schema instances to a constructor runs their `after` validators once more (observed with
   the pinned pydantic), so handle_nullable is applied to each of them again - exactly what happens at a top position *)
Definition akid := bool -> kid.
Definition array_members (kitems : option akid) (kprefix : list akid) : list akid :=
  kprefix ++ match kitems with Some k => [k] | None => [] end.

(* ---- the dispatch chain of property_from_data after the single-reference test, in the order of the code.
   enum_case: what the enum branch returns when the enum keyword is present (None = keyword absent);
   tykids: the copies of this schema made for the members of a type list. *)
Definition dispatch (c : cfg) (parent : str) (ty : tyspec) (enum_case : option tree) (tykids : list kid)
                    (kany kone : list kid) (has_all : bool) (kitems : option akid) (kprefix : list akid) (fmt : option str)
                    (d : option jval) (o : other) (name : str) : tree :=
  if ty_is ty JBoolean then TLeaf LBool name d
  else match enum_case with
  | Some t => t
  | None =>
  if nonempty kany || nonempty kone || ty_is_list ty then union_build name (kany ++ kone ++ tykids) d
  else if o_const o then TLeaf LConst name d
  else if ty_is ty JString then string_based fmt name d
  else if ty_is ty JNumber then TLeaf LFloat name d
  else if ty_is ty JInteger then TLeaf LInt name d
  else if ty_is ty JTNull then TLeaf LNone name None
  else if ty_is ty JArray then
         (* ListProperty.build: items = prefixItems + [items]; one element: that schema; several: Schema(anyOf=items).
            No member is ever dropped or merged, equal ones included. *)
         match array_members kitems kprefix with
         | [] => TErr                                   (* type array must have items or prefixItems defined *)
         | [k] => let i := k false (item_name name) in if is_err i then TErr else TList name i
         | ks => let i := union_build (item_name name) (map (fun k => k true) ks) None in if is_err i then TErr else TList name i
         end
  else if ty_is ty JObject || has_all || (match ty with TyAbsent => o_props o | _ => false end) then TModel name (class_of c parent o name)
  else TLeaf LAny name d
  end.

(* data.model_copy(update={"type": t, "default": None}) sent through property_from_data: the copy keeps anyOf/oneOf *)
Definition type_copies (c : cfg) (parent : str) (ty : tyspec) (kany kone : list kid) (has_all : bool) (kitems : option akid) (kprefix : list akid)
                       (fmt : option str) (o : other) : list kid :=
  match ty with
  | TyList l => map (fun t => dispatch c parent (TyOne t) None [] kany kone has_all kitems kprefix fmt None o) l
  | _ => []
  end.

(* EnumProperty.build / LiteralEnumProperty.build without the null rewrite *)
Definition enum_direct (c : cfg) (parent : str) (vt : vtype) (vals : list evalue) (d : option jval) (o : other) (name : str) : tree :=
  let cls := class_of c parent o name in
  match d with
  | None => TEnum (literal_enums c) name cls vt vals None
  | Some v => if enum_default_ok (literal_enums c) cls vt vals v then TEnum (literal_enums c) name cls vt vals (Some v) else TErr
  end.

Definition k_null : kid := fun n => TLeaf LNone n None.       (* Schema(type=null) through property_from_data *)

(* the enum branch: enum = the (non-empty) keyword value *)
Definition enum_branch (c : cfg) (parent : str) (ty : tyspec) (enum : list jval) (kany kone : list kid) (has_all : bool)
                       (kitems : option akid) (kprefix : list akid) (fmt : option str) (d : option jval) (o : other) (name : str) : tree :=
  match enum_build enum with
  | BNoneProp => TLeaf LNone name (Some (JStr s_None))
  | BMixed | BUnsupported => TErr
  | BPlain vt vals => enum_direct c parent vt vals d o name
  | BNullable vt vals =>
      (* data.oneOf = [Schema(type=null), copy(enum=rest, default=data.default)]; data.enum = None; UnionProperty.build(data):
         the old oneOf is overwritten on data (the copy keeps it but, holding an enum, never looks at it) *)
      let kone' := [k_null; enum_direct c parent vt vals d o] in
      union_build name (kany ++ kone' ++ type_copies c parent ty kany kone' has_all kitems kprefix fmt o) d
  end.

Definition pfd (c : cfg) (parent : str) (ty : tyspec) (enum : list jval) (kany kone : list kid) (has_all : bool)
               (kitems : option akid) (kprefix : list akid) (fmt : option str) (d : option jval) (o : other) (name : str) : tree :=
  dispatch c parent ty
           (match enum with [] => None | _ => Some (enum_branch c parent ty enum kany kone has_all kitems kprefix fmt d o name) end)
           (type_copies c parent ty kany kone has_all kitems kprefix fmt o)
           kany kone has_all kitems kprefix fmt d o name.

(* the node itself, from its (validated) fields and the builders of its children *)
Definition node_plain (c : cfg) (e : env) (parent : str) (ty : tyspec) (en : list jval) (any one all : list sch)
                      (kany kone : list kid) (kitems : option akid) (kprefix : list akid) (fmt : option str) (d : option jval) (o : other) : kid :=
  match all ++ any ++ one with
  | [SRef r] => fun name => ref_build e r name d            (* single-reference wrapper: every other keyword is ignored *)
  | _ => pfd c parent ty en kany kone (nonempty all) kitems kprefix fmt d o
  end.

(* Schema(allOf=self.allOf) made by handle_nullable, through property_from_data *)
Definition k_allof (c : cfg) (e : env) (parent : str) (all : list sch) : kid :=
  fun name => match all with [SRef r] => ref_build e r name None | _ => TModel name (class_of c parent o_none name) end.

(* again = true: handle_nullable runs once more on this (already validated) object before it is built; on the builders of the
   children this is hn: same cases, same order *)
Definition node (c : cfg) (e : env) (parent : str) (again : bool) (ty : tyspec) (nl : bool) (en : list jval) (any one all : list sch)
                (kany kone : list kid) (kitems : option akid) (kprefix : list akid) (fmt : option str) (d : option jval) (o : other) : kid :=
  if again && nl then
    match ty with
    | TyOne t => node_plain c e parent (TyList [t; JTNull]) en any one all kany kone kitems kprefix fmt d o
    | TyList l => node_plain c e parent (TyList (if mem_jty JTNull l then l else l ++ [JTNull])) en any one all kany kone kitems kprefix fmt d o
    | TyAbsent =>
        match one, any, all with
        | _ :: _, _, _ => node_plain c e parent TyAbsent en any (one ++ [null_sch]) all kany (kone ++ [k_null]) kitems kprefix fmt d o
        | [], _ :: _, _ => node_plain c e parent TyAbsent en (any ++ [null_sch]) one all (kany ++ [k_null]) kone kitems kprefix fmt d o
        | [], [], _ :: _ =>
            node_plain c e parent TyAbsent en any [null_sch; SSch TyAbsent false [] [] [] all None [] None None o_none] []
                       kany [k_null; k_allof c e parent all] kitems kprefix fmt d o
        | [], [], [] => node_plain c e parent ty en any one all kany kone kitems kprefix fmt d o
        end
    end
  else node_plain c e parent ty en any one all kany kone kitems kprefix fmt d o.

Fixpoint build_g (c : cfg) (e : env) (parent : str) (s : sch) {struct s} : akid :=
  match s with
  | SRef r => fun _ name => ref_build e r name None
  | SSch ty nl en any one all items pfx fmt d o =>
      fun again =>
        node c e parent again ty nl en any one all
             (map (fun ch => build_g c e parent ch false) any) (map (fun ch => build_g c e parent ch false) one)
             (option_map (build_g c e parent) items) (map (build_g c e parent) pfx) fmt d o
  end.

Definition build (c : cfg) (e : env) (parent : str) (s : sch) : kid := build_g c e parent s false.

(* top = the schema sits directly under a non-Schema object *)
Definition norm (c : cfg) (e : env) (parent : str) (top : bool) (s : sch) (name : str) : tree := build c e parent (pre_at top s) name.

(* two schemas are interchangeable as sub-schemas when they build the same tree under every name, validated once (nested) or
   twice (top positions; members of a tuple array, which are revalidated when the tuple is wrapped) *)
Definition equiv (c : cfg) (e : env) (parent : str) (a b : sch) : Prop :=
  forall top n, norm c e parent top a n = norm c e parent top b n.
Definition oequiv (c : cfg) (e : env) (parent : str) (a b : option sch) : Prop :=
  match a, b with None, None => True | Some x, Some y => equiv c e parent x y | _, _ => False end.

(* ------------------------------------------------------------------ guards *)
(* enum-with-null == explicit union: outside a type list (a nullable flag on a typed schema becomes one) *)
Definition g_enum_null (ty : tyspec) (nl : bool) : bool :=
  match ty with TyList _ => false | TyOne t => negb nl && negb (jty_eqb t JBoolean) | TyAbsent => true end.
(* wrapper == bare reference: the wrapper carries no default and is not made a union by `nullable` *)
Definition g_wrapper (ty : tyspec) (nl : bool) (d : option jval) : bool :=
  match d with Some _ => false | None => match ty with TyAbsent => negb nl | _ => true end end.

(* ------------------------------------------------------------------ decidable equality of trees (correspondence) *)
Definition opt_jval_eqb (a b : option jval) : bool :=
  match a, b with None, None => true | Some x, Some y => jval_eqb x y | _, _ => false end.
Definition leaf_eqb (a b : leaf) : bool :=
  match a, b with
  | LAny, LAny | LNone, LNone | LBool, LBool | LInt, LInt | LFloat, LFloat | LStr, LStr | LDate, LDate
  | LDateTime, LDateTime | LUuid, LUuid | LFile, LFile | LConst, LConst => true
  | _, _ => false
  end.
Definition vtype_eqb (a b : vtype) : bool := match a, b with VInt, VInt | VStr, VStr => true | _, _ => false end.
Fixpoint list_eqb {A : Type} (f : A -> A -> bool) (a b : list A) : bool :=
  match a, b with [], [] => true | x :: a', y :: b' => f x y && list_eqb f a' b' | _, _ => false end.

Fixpoint tree_eqb (a b : tree) {struct a} : bool :=
  match a, b with
  | TErr, TErr => true
  | TLeaf k n d, TLeaf k' n' d' => leaf_eqb k k' && str_eqb n n' && opt_jval_eqb d d'
  | TEnum l n c vt vs d, TEnum l' n' c' vt' vs' d' =>
      Bool.eqb l l' && str_eqb n n' && str_eqb c c' && vtype_eqb vt vt' && list_eqb evalue_eqb vs vs' && opt_jval_eqb d d'
  | TList n i, TList n' i' => str_eqb n n' && tree_eqb i i'
  | TUnion n ms d, TUnion n' ms' d' =>
      str_eqb n n' && opt_jval_eqb d d' &&
      (fix go (x y : list tree) : bool :=
         match x, y with [], [] => true | t :: x', u :: y' => tree_eqb t u && go x' y' | _, _ => false end) ms ms'
  | TModel n c, TModel n' c' => str_eqb n n' && str_eqb c c'
  | _, _ => false
  end.

(* equality of validated schemas (correspondence of pre with the real validators) *)
Definition tyspec_eqb (a b : tyspec) : bool :=
  match a, b with
  | TyAbsent, TyAbsent => true
  | TyOne x, TyOne y => jty_eqb x y
  | TyList x, TyList y => list_eqb jty_eqb x y
  | _, _ => false
  end.
Definition opt_str_eqb (a b : option str) : bool :=
  match a, b with None, None => true | Some x, Some y => str_eqb x y | _, _ => false end.
Definition other_eqb (a b : other) : bool :=
  Bool.eqb (o_const a) (o_const b) && Bool.eqb (o_props a) (o_props b) && opt_str_eqb (o_title a) (o_title b) && Bool.eqb (o_extra a) (o_extra b).
Fixpoint sch_eqb (a b : sch) {struct a} : bool :=
  match a, b with
  | SRef r, SRef r' => str_eqb r r'
  | SSch ty nl en any one all items pfx fmt d o, SSch ty' nl' en' any' one' all' items' pfx' fmt' d' o' =>
      let go := fix go (x y : list sch) : bool :=
                  match x, y with [], [] => true | t :: x', u :: y' => sch_eqb t u && go x' y' | _, _ => false end in
      tyspec_eqb ty ty' && Bool.eqb nl nl' && list_eqb jval_eqb en en' && go any any' && go one one' && go all all' &&
      match items, items' with None, None => true | Some i, Some i' => sch_eqb i i' | _, _ => false end && go pfx pfx' &&
      opt_str_eqb fmt fmt' && opt_jval_eqb d d' && other_eqb o o'
  | _, _ => false
  end.
Definition excl_eqb (a b : excl) : bool :=
  match a, b with XAbsent, XAbsent => true | XBool x, XBool y => Bool.eqb x y | XNum x, XNum y => Z.eqb x y | _, _ => false end.
Definition bound_eqb (a b : bound) : bool :=
  match b_lim a, b_lim b with None, None => true | Some x, Some y => Z.eqb x y | _, _ => false end && excl_eqb (b_excl a) (b_excl b).

(* ------------------------------------------------------------------ loader: _get_document / _load_yaml_or_json *)
Definition s_app_json : str := [97;112;112;108;105;99;97;116;105;111;110;47;106;115;111;110].
Inductive parser := PJson | PYaml.
Definition parser_eqb (a b : parser) : bool := match a, b with PJson, PJson | PYaml, PYaml => true | _, _ => false end.
Definition choose_parser (content_type : option str) : parser :=
  match content_type with Some ct => if str_eqb ct s_app_json then PJson else PYaml | None => PYaml end.

(* header.split(";")[0] *)
Fixpoint before_semi (s : str) : str :=
  match s with [] => [] | c :: r => if c =? 59 then [] else c :: before_semi r end.

Record response := { r_content : list N; r_ctype : option str }.        (* body bytes; the content-type header if present *)
Inductive source :=
| SFile (content : list N) (guessed : option str)                  (* guessed = mimetypes.guess_type(path as uri)[0] (runtime oracle) *)
| SUrl (fetched : option response) (guessed : option str).         (* fetched = None: httpx / network error *)

Inductive loaded (V : Type) := LFetchError | LParseError (p : parser) | LDoc (v : V).
Arguments LFetchError {V}. Arguments LParseError {V} p. Arguments LDoc {V} v.

(* the two parsers are runtime oracles without laws: json.loads(data.decode()) and ruamel YAML(typ=safe).load(data) *)
Definition load_yaml_or_json {V : Type} (parse_json parse_yaml : list N -> option V) (data : list N) (ct : option str) : loaded V :=
  match choose_parser ct with
  | PJson => match parse_json data with Some v => LDoc v | None => LParseError PJson end
  | PYaml => match parse_yaml data with Some v => LDoc v | None => LParseError PYaml end
  end.

Definition content_type_of (s : source) : option str :=
  match s with
  | SFile _ g => g
  | SUrl (Some r) g => match r_ctype r with Some h => Some (before_semi h) | None => g end
  | SUrl None g => g
  end.

Definition get_document {V : Type} (parse_json parse_yaml : list N -> option V) (s : source) : loaded V :=
  match s with
  | SFile content _ => load_yaml_or_json parse_json parse_yaml content (content_type_of s)
  | SUrl None _ => LFetchError
  | SUrl (Some r) _ => load_yaml_or_json parse_json parse_yaml (r_content r) (content_type_of s)
  end.
