(* EnumsThm.v — proofs about Enums.v and Values.values_from_list (C14). *)
From Coq Require Import NArith ZArith List Bool Lia ZifyBool.
Import ListNotations.
Require Import OPC.gen.GenTables OPC.Uni OPC.Names OPC.NamesThm OPC.PyLit OPC.PyLitThm OPC.Values OPC.PyEval OPC.ValuesThm OPC.Enums.
Open Scope N_scope.

#[local] Opaque printable upper lower snake_case c_isalpha.

(* ================= the member table as a set ================= *)

(* what values_from_list would store for the i-th, (i+1)-th ... value *)
Fixpoint entries_from (i : N) (vs : list evalue) : list (str * evalue) :=
  match vs with [] => [] | e :: r => (member_key i e, esc_ev e) :: entries_from (N.succ i) r end.

Definition key_functional (l : list (str * evalue)) : Prop :=
  forall k v v', In (k, v) l -> In (k, v') l -> v = v'.
Definition key_functional_b (l : list (str * evalue)) : bool :=
  forallb (fun p => forallb (fun q => implb (str_eqb (fst p) (fst q)) (evalue_eqb (snd p) (snd q))) l) l.

(* guard: two values whose sanitised member names coincide are the same value (complement = finding enum_silent_merge) *)
Definition g_enum_sanitised_distinct (vs : list evalue) : bool := key_functional_b (entries_from 0 vs).

Lemma evalue_eqb_eq a b : evalue_eqb a b = true -> a = b.
Proof.
  destruct a as [z|s]; intros H.
  - symmetry. apply evalue_eqb_int. exact H.
  - symmetry. apply evalue_eqb_str. exact H.
Qed.

Lemma str_eqb_refl s : str_eqb s s = true.
Proof. apply str_eqb_eq. reflexivity. Qed.

Lemma key_functional_b_sound l : key_functional_b l = true -> key_functional l.
Proof.
  intros H k v v' H1 H2. unfold key_functional_b in H.
  rewrite forallb_forall in H. specialize (H _ H1). rewrite forallb_forall in H. specialize (H _ H2).
  cbn [fst snd] in H. rewrite str_eqb_refl in H. cbn [implb] in H. apply evalue_eqb_eq. exact H.
Qed.

Lemma go_sub : forall vs i out m, values_from_list_go i vs out = Some m ->
  forall p, In p m -> In p out \/ In p (entries_from i vs).
Proof.
  induction vs as [|e vs IH]; intros i out m H p Hp.
  - cbn [values_from_list_go] in H. injection H as <-. left; exact Hp.
  - apply go_step in H. destruct (IH _ _ _ H p Hp) as [Hin|Hin].
    + destruct p as [k' v']. apply assoc_set_In in Hin as [Hin|[-> ->]].
      * left; exact Hin.
      * right. left. reflexivity.
    + right. right. exact Hin.
Qed.

Lemma go_sup : forall vs i out m,
  key_functional (out ++ entries_from i vs) ->
  values_from_list_go i vs out = Some m ->
  forall p, In p (out ++ entries_from i vs) -> In p m.
Proof.
  induction vs as [|e vs IH]; intros i out m Hf H p Hp.
  - cbn [values_from_list_go] in H. injection H as <-. cbn [entries_from] in Hp. rewrite app_nil_r in Hp. exact Hp.
  - apply go_step in H. cbn [entries_from] in Hp, Hf.
    set (k := member_key i e) in *. set (v := esc_ev e) in *.
    assert (Hsub : forall q, In q (assoc_set k v out ++ entries_from (N.succ i) vs) ->
                             In q (out ++ (k, v) :: entries_from (N.succ i) vs)).
    { intros [k' v'] Hq. apply in_app_or in Hq as [Hq|Hq].
      - apply assoc_set_In in Hq as [Hq|[-> ->]].
        + apply in_or_app. left; exact Hq.
        + apply in_or_app. right. left. reflexivity.
      - apply in_or_app. right. right. exact Hq. }
    apply (IH _ _ _) with (2 := H).
    + intros k0 v0 v0' H1 H2. apply (Hf k0); apply Hsub; assumption.
    + destruct p as [k0 v0]. apply in_app_or in Hp as [Hp|[Hp|Hp]].
      * apply in_or_app. left.
        destruct (str_eqb k0 k) eqn:E.
        -- apply str_eqb_eq in E. subst k0.
           assert (v0 = v).
           { apply (Hf k); apply in_or_app; [left; exact Hp | right; left; reflexivity]. }
           subst v0. apply assoc_set_new.
        -- apply assoc_set_other; [exact Hp|]. intros ->. rewrite str_eqb_refl in E. discriminate.
      * injection Hp as <- <-. apply in_or_app. left. apply assoc_set_new.
      * apply in_or_app. right. exact Hp.
Qed.

(* no invented member, whatever the input *)
Theorem vfl_members_sub : forall vs m p, values_from_list vs = Some m -> In p m -> In p (entries_from 0 vs).
Proof.
  intros vs m p H Hp. unfold values_from_list in H.
  destruct (go_sub _ _ _ _ H p Hp) as [[]|Hin]. exact Hin.
Qed.

(* under the guard the table is exactly the set of (sanitised name, stored value) pairs of the declared values *)
Theorem vfl_exact : forall vs m, key_functional (entries_from 0 vs) -> values_from_list vs = Some m ->
  forall p, In p m <-> In p (entries_from 0 vs).
Proof.
  intros vs m Hf H p. split.
  - apply vfl_members_sub. exact H.
  - intros Hp. unfold values_from_list in H. apply (go_sup vs 0 [] m Hf H p). exact Hp.
Qed.

Lemma entries_from_nth : forall vs i j e, nth_error vs j = Some e ->
  In (member_key (i + N.of_nat j) e, esc_ev e) (entries_from i vs).
Proof.
  induction vs as [|e0 vs IH]; intros i [|j] e Hj; try discriminate Hj.
  - cbn [nth_error] in Hj. injection Hj as <-. replace (i + N.of_nat 0) with i by lia. left. reflexivity.
  - cbn [nth_error] in Hj. right. replace (i + N.of_nat (S j)) with (N.succ i + N.of_nat j) by lia.
    apply IH. exact Hj.
Qed.

Lemma entries_from_In : forall vs i k v, In (k, v) (entries_from i vs) -> exists e, In e vs /\ v = esc_ev e.
Proof.
  induction vs as [|e0 vs IH]; intros i k v H; [destruct H|].
  destruct H as [H|H].
  - injection H as _ <-. exists e0. split; [left; reflexivity | reflexivity].
  - destruct (IH _ _ _ H) as (e & He & Hv). exists e. split; [right; exact He | exact Hv].
Qed.

Lemma nodup_keys_functional l : NoDup (keys l) -> key_functional l.
Proof.
  induction l as [|[k0 v0] l IH]; intros Hn k v v' H1 H2; [destruct H1|].
  rewrite keys_cons in Hn. inversion Hn as [|x xs Hnotin Hn']; subst.
  destruct H1 as [H1|H1], H2 as [H2|H2].
  - congruence.
  - injection H1 as <- <-. exfalso. apply Hnotin.
    change (In (fst (k0, v')) (keys l)). apply in_map. exact H2.
  - injection H2 as <- <-. exfalso. apply Hnotin.
    change (In (fst (k0, v)) (keys l)). apply in_map. exact H1.
  - apply (IH Hn' k); assumption.
Qed.

(* ================= a colliding raw key is reported (raises), never merged ================= *)

Definition raw_key (i : N) (s : str) : str :=
  match s with
  | c :: _ => if c_isalpha c then upper s else s_VALUE_ ++ dec_N i
  | [] => s_VALUE_ ++ dec_N i
  end.

Lemma go_str_step i s vs out m : values_from_list_go i (EStr s :: vs) out = Some m -> assoc_mem (raw_key i s) out = false.
Proof.
  cbn [values_from_list_go]. unfold raw_key.
  destruct (assoc_mem _ out); [discriminate | reflexivity].
Qed.

Lemma assoc_set_keys_incl k v m k' : In k' (keys m) -> In k' (keys (assoc_set k v m)).
Proof.
  intros H. rewrite assoc_set_keys. destruct (assoc_mem k m); [exact H | apply in_or_app; left; exact H].
Qed.

Lemma assoc_set_key_in k v : forall m, In k (keys (assoc_set k v m)).
Proof.
  intros m. change (In (fst (k, v)) (keys (assoc_set k v m))). apply in_map. apply assoc_set_new.
Qed.

Lemma go_dup : forall vs i out m, values_from_list_go i vs out = Some m ->
  forall j s, nth_error vs j = Some (EStr s) ->
    (forall k, In k (keys out) -> raw_key (i + N.of_nat j) s <> k) /\
    (forall j' e', (j' < j)%nat -> nth_error vs j' = Some e' -> raw_key (i + N.of_nat j) s <> member_key (i + N.of_nat j') e').
Proof.
  induction vs as [|e vs IH]; intros i out m H j s Hj; [destruct j; discriminate Hj|].
  destruct j as [|j].
  - cbn [nth_error] in Hj. injection Hj as ->. replace (i + N.of_nat 0) with i by lia.
    apply go_str_step in H. split.
    + intros k Hk E. subst k. exact (assoc_mem_false _ _ H Hk).
    + intros j' e' Hlt. lia.
  - cbn [nth_error] in Hj. apply go_step in H.
    destruct (IH _ _ _ H j s Hj) as [Hout Hprev].
    replace (i + N.of_nat (S j)) with (N.succ i + N.of_nat j) by lia. split.
    + intros k Hk. apply Hout. apply assoc_set_keys_incl. exact Hk.
    + intros [|j'] e' Hlt Hj'.
      * cbn [nth_error] in Hj'. injection Hj' as <-. replace (i + N.of_nat 0) with i by lia.
        apply Hout. apply assoc_set_key_in.
      * cbn [nth_error] in Hj'. replace (i + N.of_nat (S j')) with (N.succ i + N.of_nat j') by lia.
        apply Hprev; [lia | exact Hj'].
Qed.

(* if the table is built at all, no value's raw key equals the stored name of an earlier value: such a collision raises *)
Theorem enum_dup_reported : forall vs m i j e s, values_from_list vs = Some m ->
  (i < j)%nat -> nth_error vs i = Some e -> nth_error vs j = Some (EStr s) ->
  raw_key (N.of_nat j) s <> member_key (N.of_nat i) e.
Proof.
  intros vs m i j e s H Hlt Hi Hj. unfold values_from_list in H.
  destruct (go_dup _ _ _ _ H j s Hj) as [_ Hprev]. exact (Hprev i e Hlt Hi).
Qed.

Theorem enum_dup_crash_refuted : values_from_list [EStr [97]; EStr [65]] = None.
Proof. vm_compute. reflexivity. Qed.

(* ================= sorting, map_opt, lookup ================= *)

Lemma insert_kv_In {A : Type} (kv : str * A) : forall l p, In p (insert_kv kv l) <-> p = kv \/ In p l.
Proof.
  induction l as [|h t IH]; intros p; cbn [insert_kv].
  - split; intros [H|[]]; [left; symmetry; exact H | left; symmetry; exact H].
  - destruct (str_ltb (fst kv) (fst h)).
    + split; intros [H|H]; [left; symmetry; exact H | right; exact H | left; symmetry; exact H | right; exact H].
    + split.
      * intros [H|H]; [right; left; exact H|]. apply IH in H as [H|H]; [left; exact H | right; right; exact H].
      * intros [H|[H|H]]; [right; apply IH; left; exact H | left; exact H | right; apply IH; right; exact H].
Qed.

Lemma dictsort_In {A : Type} : forall (l : list (str * A)) p, In p (dictsort l) <-> In p l.
Proof.
  induction l as [|h t IH]; intros p; [reflexivity|].
  unfold dictsort. cbn [fold_right]. fold (dictsort t). rewrite insert_kv_In, IH.
  split; intros [H|H]; [left; symmetry; exact H | right; exact H | left; symmetry; exact H | right; exact H].
Qed.

Lemma map_opt_In {A B : Type} (f : A -> option B) : forall l l', map_opt f l = Some l' ->
  forall b, In b l' <-> exists a, In a l /\ f a = Some b.
Proof.
  induction l as [|a l IH]; intros l' H b.
  - cbn [map_opt] in H. injection H as <-. split; [intros [] | intros (a & [] & _)].
  - cbn [map_opt] in H. destruct (f a) as [b0|] eqn:E; [|discriminate].
    destruct (map_opt f l) as [t|] eqn:E2; [|discriminate]. injection H as <-.
    specialize (IH t eq_refl b). split.
    + intros [Hb|Hb].
      * subst b0. exists a. split; [left; reflexivity | exact E].
      * apply IH in Hb as (a' & Ha' & Hf). exists a'. split; [right; exact Ha' | exact Hf].
    + intros (a' & [Ha'|Ha'] & Hf).
      * subst a'. left. congruence.
      * right. apply IH. exists a'. split; assumption.
Qed.

Lemma map_opt_total {A B : Type} (f : A -> option B) : forall l,
  (forall a, In a l -> exists b, f a = Some b) -> exists l', map_opt f l = Some l'.
Proof.
  induction l as [|a l IH]; intros H; [exists []; reflexivity|].
  destruct (H a (or_introl eq_refl)) as (b & Hb).
  destruct IH as (t & Ht); [intros a' Ha'; apply H; right; exact Ha'|].
  exists (b :: t). cbn [map_opt]. rewrite Hb, Ht. reflexivity.
Qed.

Lemma enum_lookup_In : forall cls j k, enum_lookup cls j = Some k -> exists v, In (k, v) cls /\ py_eq j v = true.
Proof.
  induction cls as [|[k0 v0] cls IH]; intros j k H; [discriminate H|].
  cbn [enum_lookup] in H. destruct (py_eq j v0) eqn:E.
  - injection H as <-. exists v0. split; [left; reflexivity | exact E].
  - destruct (IH _ _ H) as (v & Hin & He). exists v. split; [right; exact Hin | exact He].
Qed.

Lemma enum_lookup_some : forall cls j k v, In (k, v) cls -> py_eq j v = true -> exists k', enum_lookup cls j = Some k'.
Proof.
  induction cls as [|[k0 v0] cls IH]; intros j k v Hin He; [destruct Hin|].
  cbn [enum_lookup]. destruct (py_eq j v0) eqn:E; [exists k0; reflexivity|].
  destruct Hin as [Hin|Hin]; [injection Hin as -> ->; congruence|].
  apply (IH _ _ _ Hin He).
Qed.

Lemma enum_lookup_none : forall cls j, (forall k v, In (k, v) cls -> py_eq j v = false) -> enum_lookup cls j = None.
Proof.
  intros cls j H. destruct (enum_lookup cls j) as [k|] eqn:E; [|reflexivity].
  apply enum_lookup_In in E as (v & Hin & He). rewrite (H _ _ Hin) in He. discriminate.
Qed.

Definition cls_functional (cls : enum_class) : Prop := forall k v v', In (k, v) cls -> In (k, v') cls -> v = v'.

Lemma enum_value_In : forall cls k v, cls_functional cls -> In (k, v) cls -> enum_value cls k = Some v.
Proof.
  induction cls as [|[k0 v0] cls IH]; intros k v Hf Hin; [destruct Hin|].
  cbn [enum_value]. destruct (str_eqb k k0) eqn:E.
  - apply str_eqb_eq in E. subst k0. f_equal. apply (Hf k); [left; reflexivity | exact Hin].
  - destruct Hin as [Hin|Hin].
    + injection Hin as -> ->. rewrite str_eqb_refl in E. discriminate.
    + apply IH; [|exact Hin]. intros k1 v1 v1' H1 H2. apply (Hf k1); right; assumption.
Qed.

(* ================= Python equality on the values that occur ================= *)

Lemma py_eq_str_r j s : py_eq j (JStr s) = true -> j = JStr s.
Proof.
  destruct j as [|b|z|f|s'|s']; cbn [py_eq as_int]; try discriminate.
  - destruct (if f_finite f then f_int f else None); discriminate.
  - intros H. apply str_eqb_eq in H. subst. reflexivity.
Qed.

Lemma py_eq_str_refl s : py_eq (JStr s) (JStr s) = true.
Proof. cbn [py_eq]. apply str_eqb_refl. Qed.

Lemma py_eq_int_refl z : py_eq (JInt z) (JInt z) = true.
Proof. cbn [py_eq as_int]. apply Z.eqb_refl. Qed.

Lemma py_eq_int_int a b : py_eq (JInt a) (JInt b) = true -> a = b.
Proof. cbn [py_eq as_int]. apply Z.eqb_eq. Qed.

(* ================= C14: string enums (class generated from str_enum.py.jinja) ================= *)

Lemma all_str_esc vs : forallb ev_is_str vs = true -> g_no_bs_nl vs = true ->
  forall e, In e vs -> exists s, e = EStr s /\ no_bs_nl s = true.
Proof.
  intros Hs Hn e He. rewrite forallb_forall in Hs. unfold g_no_bs_nl in Hn. rewrite forallb_forall in Hn.
  specialize (Hs e He). specialize (Hn e He). destruct e as [z|s]; [discriminate|].
  exists s. split; [reflexivity | exact Hn].
Qed.

(* guard: every member name is an identifier (complement = finding xid_gap of C09 reaching enum member names) *)
Definition g_member_names (vs : list evalue) : bool := forallb (fun p => is_identifier (fst p)) (entries_from 0 vs).

Lemma str_member_ok k s : is_identifier k = true -> no_bs_nl s = true -> str_member (k, EStr (escape_dq s)) = Some (k, JStr s).
Proof.
  intros Hk H. unfold str_member. cbn [fst snd]. rewrite Hk. cbn [negb].
  change (escape_dq s ++ [DQ]) with (escape_dq s ++ DQ :: []).
  rewrite (dq_literal_roundtrip s [] H). reflexivity.
Qed.

Lemma escape_dq_inj a b : no_bs_nl a = true -> no_bs_nl b = true -> escape_dq a = escape_dq b -> a = b.
Proof.
  intros Ha Hb E. pose proof (dq_literal_roundtrip a [] Ha) as La. pose proof (dq_literal_roundtrip b [] Hb) as Lb.
  rewrite E in La. congruence.
Qed.

Section StrEnum.
  Variable vs : list evalue.
  Variable m : list (str * evalue).
  Hypothesis Hstr : forallb ev_is_str vs = true.
  Hypothesis Hbs : g_no_bs_nl vs = true.
  Hypothesis Hm : values_from_list vs = Some m.
  Hypothesis Hid : g_member_names vs = true.

  Lemma key_ident k e : In (k, e) m -> is_identifier k = true.
  Proof.
    intros Hin. apply (vfl_members_sub _ _ _ Hm) in Hin. unfold g_member_names in Hid. rewrite forallb_forall in Hid.
    apply (Hid _ Hin).
  Qed.

  Lemma str_entry k e : In (k, e) m -> exists s, In (EStr s) vs /\ no_bs_nl s = true /\ e = EStr (escape_dq s).
  Proof.
    intros Hin. destruct (values_from_list_members_declared _ _ _ _ Hm Hin) as (v & Hv & He).
    destruct (all_str_esc vs Hstr Hbs v Hv) as (s & -> & Hs). exists s. cbn [esc_ev] in He. subst e. auto.
  Qed.

  Lemma str_class_exists : exists cls, str_enum_class m = Some cls.
  Proof.
    unfold str_enum_class. apply map_opt_total. intros [k e] Hin. apply (proj1 (dictsort_In _ _)) in Hin.
    destruct (str_entry k e Hin) as (s & _ & Hs & ->). exists (k, JStr s). apply str_member_ok; [|exact Hs].
    apply (key_ident _ _ Hin).
  Qed.

  Variable cls : enum_class.
  Hypothesis Hcls : str_enum_class m = Some cls.

  Lemma str_cls_In k w : In (k, w) cls <-> exists s, w = JStr s /\ In (EStr s) vs /\ In (k, EStr (escape_dq s)) m.
  Proof.
    unfold str_enum_class in Hcls. rewrite (map_opt_In _ _ _ Hcls). split.
    - intros ([k' e] & Hin & Hf). apply (proj1 (dictsort_In _ _)) in Hin.
      destruct (str_entry k' e Hin) as (s & Hs & Hn & ->).
      rewrite (str_member_ok k' s (key_ident _ _ Hin) Hn) in Hf. injection Hf as -> <-. exists s. auto.
    - intros (s & -> & Hs & Hin). exists (k, EStr (escape_dq s)). split; [apply (proj2 (dictsort_In _ _)); exact Hin|].
      apply str_member_ok; [apply (key_ident _ _ Hin)|]. destruct (all_str_esc vs Hstr Hbs _ Hs) as (s' & E & Hn). injection E as <-. exact Hn.
  Qed.

  Lemma str_cls_functional : cls_functional cls.
  Proof.
    intros k v v' H1 H2. apply str_cls_In in H1 as (s1 & -> & Hs1 & H1). apply str_cls_In in H2 as (s2 & -> & Hs2 & H2).
    pose proof (nodup_keys_functional m (values_from_list_keys_nodup _ _ Hm) k _ _ H1 H2) as E.
    injection E as E.
    destruct (all_str_esc vs Hstr Hbs _ Hs1) as (t1 & E1 & Hn1). injection E1 as <-.
    destruct (all_str_esc vs Hstr Hbs _ Hs2) as (t2 & E2 & Hn2). injection E2 as <-.
    f_equal. apply escape_dq_inj; assumption.
  Qed.

  (* every member carries a declared value; decoding returns a member carrying exactly the decoded value; values that are
     not declared strings are rejected; encoding a decoded member gives the value back *)
  Lemma str_members_declared k w : In (k, w) cls -> exists s, w = JStr s /\ In (EStr s) vs.
  Proof. intros H. apply str_cls_In in H as (s & -> & Hs & _). exists s. auto. Qed.

  Lemma str_decode_sound j k : enum_lookup cls j = Some k ->
    exists s, j = JStr s /\ In (EStr s) vs /\ enum_value cls k = Some (JStr s).
  Proof.
    intros H. apply enum_lookup_In in H as (v & Hin & He).
    destruct (str_members_declared _ _ Hin) as (s & -> & Hs). apply py_eq_str_r in He. subst j.
    exists s. split; [reflexivity|]. split; [exact Hs|]. apply enum_value_In; [apply str_cls_functional | exact Hin].
  Qed.

  Lemma str_decode_unlisted j : (forall s, j = JStr s -> ~ In (EStr s) vs) -> enum_decode cls j = DFail.
  Proof.
    intros H. unfold enum_decode. destruct (enum_lookup cls j) as [k|] eqn:E; [|reflexivity].
    destruct (str_decode_sound _ _ E) as (s & -> & Hs & _). exfalso. exact (H s eq_refl Hs).
  Qed.

  Hypothesis Hg : g_enum_sanitised_distinct vs = true.

  Lemma str_decode_listed s : In (EStr s) vs ->
    exists k, enum_decode cls (JStr s) = DMember k /\ enum_value cls k = Some (JStr s).
  Proof.
    intros Hs. destruct (In_nth_error _ _ Hs) as (i & Hi).
    pose proof (entries_from_nth vs 0 i _ Hi) as Hent.
    apply (vfl_exact vs m (key_functional_b_sound _ Hg) Hm) in Hent. cbn [esc_ev] in Hent.
    assert (Hc : In (member_key (0 + N.of_nat i) (EStr s), JStr s) cls).
    { apply str_cls_In. exists s. auto. }
    destruct (enum_lookup_some cls (JStr s) _ _ Hc (py_eq_str_refl s)) as (k' & Hk').
    exists k'. unfold enum_decode. rewrite Hk'. split; [reflexivity|].
    destruct (str_decode_sound _ _ Hk') as (s' & E & _ & Hv). injection E as <-. exact Hv.
  Qed.
End StrEnum.

Theorem enum_exact_str : forall vs m,
  forallb ev_is_str vs = true -> g_no_bs_nl vs = true -> g_enum_sanitised_distinct vs = true -> g_member_names vs = true ->
  values_from_list vs = Some m ->
  exists cls, str_enum_class m = Some cls /\
    (forall s, In (EStr s) vs -> exists k, enum_decode cls (JStr s) = DMember k /\ enum_value cls k = Some (JStr s)) /\
    (forall j k, enum_lookup cls j = Some k -> exists s, j = JStr s /\ In (EStr s) vs /\ enum_value cls k = Some (JStr s)) /\
    (forall j, (forall s, j = JStr s -> ~ In (EStr s) vs) -> enum_decode cls j = DFail) /\
    (forall k w, In (k, w) cls -> exists s, w = JStr s /\ In (EStr s) vs).
Proof.
  intros vs m Hstr Hbs Hg Hid Hm. destruct (str_class_exists vs m Hstr Hbs Hm Hid) as (cls & Hcls). exists cls.
  split; [exact Hcls|]. split; [|split; [|split]].
  - intros s Hs. apply (str_decode_listed vs m Hstr Hbs Hm Hid cls Hcls Hg s Hs).
  - apply (str_decode_sound vs m Hstr Hbs Hm Hid cls Hcls).
  - apply (str_decode_unlisted vs m Hstr Hbs Hm Hid cls Hcls).
  - apply (str_members_declared vs m Hstr Hbs Hm Hid cls Hcls).
Qed.

(* ================= C14: integer enums (int_enum.py.jinja) ================= *)

Lemma dec_N_inj a b : dec_N a = dec_N b -> a = b.
Proof.
  intros H. pose proof (parse_dec_dec_N a) as Ha. rewrite H, parse_dec_dec_N in Ha. congruence.
Qed.

Lemma int_key_inj i j a b : member_key i (EInt a) = member_key j (EInt b) -> a = b.
Proof.
  assert (Mixed : forall z p, (match z with Zneg _ => False | _ => True end) ->
            s_VALUE_ ++ dec_Z z = s_VALUE_NEGATIVE_ ++ dec_N (Npos p) -> False).
  { intros z p Hz E. unfold s_VALUE_, s_VALUE_NEGATIVE_ in E. cbn [app] in E.
    injection E as E. destruct (dec_Z_head z) as (c & r & Ec & Hc). rewrite Ec in E. injection E as E _.
    subst c. destruct Hc as [Hc|Hc]; [discriminate Hc | lia]. }
  unfold member_key. intros H.
  destruct a as [|pa|pa], b as [|pb|pb].
  all: try (apply app_inv_head in H).
  all: try (apply dec_Z_inj in H; exact H).
  all: try (apply dec_N_inj in H; congruence).
  all: try (exfalso; refine (Mixed _ _ _ H); exact I).
  all: try (exfalso; symmetry in H; refine (Mixed _ _ _ H); exact I).
Qed.

Lemma all_int_entries : forall vs i k v, forallb ev_is_int vs = true -> In (k, v) (entries_from i vs) ->
  exists j z, v = EInt z /\ k = member_key j (EInt z) /\ In (EInt z) vs.
Proof.
  induction vs as [|e vs IH]; intros i k v Hi H; [destruct H|].
  cbn [forallb] in Hi. apply andb_prop in Hi as [He Hi]. destruct H as [H|H].
  - destruct e as [z|s]; [|discriminate]. injection H as <- <-. exists i, z. cbn [esc_ev]. split; [reflexivity|].
    split; [reflexivity | left; reflexivity].
  - destruct (IH _ _ _ Hi H) as (j & z & Hv & Hk & Hin). exists j, z. split; [exact Hv|]. split; [exact Hk | right; exact Hin].
Qed.

(* integer member names are injective in the value: the guard holds for every integer list *)
Lemma int_entries_functional vs : forallb ev_is_int vs = true -> key_functional (entries_from 0 vs).
Proof.
  intros Hi k v v' H1 H2.
  destruct (all_int_entries _ _ _ _ Hi H1) as (j1 & z1 & -> & Hk1 & _).
  destruct (all_int_entries _ _ _ _ Hi H2) as (j2 & z2 & -> & Hk2 & _).
  f_equal. apply (int_key_inj j1 j2). congruence.
Qed.

Lemma int_member_ok k z : int_member (k, EInt z) = Some (k, JInt z).
Proof. unfold int_member. cbn [fst snd]. rewrite parse_int_dec_Z. reflexivity. Qed.

Section IntEnum.
  Variable vs : list evalue.
  Variable m : list (str * evalue).
  Hypothesis Hint : forallb ev_is_int vs = true.
  Hypothesis Hm : values_from_list vs = Some m.

  Lemma int_entry k e : In (k, e) m -> exists z, In (EInt z) vs /\ e = EInt z.
  Proof.
    intros Hin. destruct (values_from_list_members_declared _ _ _ _ Hm Hin) as (v & Hv & He).
    rewrite forallb_forall in Hint. specialize (Hint v Hv). destruct v as [z|s]; [|discriminate].
    exists z. cbn [esc_ev] in He. auto.
  Qed.

  Lemma int_class_exists : exists cls, int_enum_class m = Some cls.
  Proof.
    unfold int_enum_class. apply map_opt_total. intros [k e] Hin.
    destruct (int_entry k e Hin) as (z & _ & ->). exists (k, JInt z). apply int_member_ok.
  Qed.

  Variable cls : enum_class.
  Hypothesis Hcls : int_enum_class m = Some cls.

  Lemma int_cls_In k w : In (k, w) cls <-> exists z, w = JInt z /\ In (EInt z) vs /\ In (k, EInt z) m.
  Proof.
    unfold int_enum_class in Hcls. rewrite (map_opt_In _ _ _ Hcls). split.
    - intros ([k' e] & Hin & Hf). destruct (int_entry k' e Hin) as (z & Hz & ->).
      rewrite int_member_ok in Hf. injection Hf as -> <-. exists z. auto.
    - intros (z & -> & Hz & Hin). exists (k, EInt z). split; [exact Hin | apply int_member_ok].
  Qed.

  Lemma int_cls_functional : cls_functional cls.
  Proof.
    intros k v v' H1 H2. apply int_cls_In in H1 as (z1 & -> & _ & H1). apply int_cls_In in H2 as (z2 & -> & _ & H2).
    pose proof (nodup_keys_functional m (values_from_list_keys_nodup _ _ Hm) k _ _ H1 H2) as E. congruence.
  Qed.

  Lemma int_members_declared k w : In (k, w) cls -> exists z, w = JInt z /\ In (EInt z) vs.
  Proof. intros H. apply int_cls_In in H as (z & -> & Hz & _). exists z. auto. Qed.

  Lemma int_decode_sound j k : enum_lookup cls j = Some k ->
    exists z, py_eq j (JInt z) = true /\ In (EInt z) vs /\ enum_value cls k = Some (JInt z).
  Proof.
    intros H. apply enum_lookup_In in H as (v & Hin & He).
    destruct (int_members_declared _ _ Hin) as (z & -> & Hz).
    exists z. split; [exact He|]. split; [exact Hz|]. apply enum_value_In; [apply int_cls_functional | exact Hin].
  Qed.

  Lemma int_decode_unlisted z : ~ In (EInt z) vs -> enum_decode cls (JInt z) = DFail.
  Proof.
    intros H. unfold enum_decode. destruct (enum_lookup cls (JInt z)) as [k|] eqn:E; [|reflexivity].
    destruct (int_decode_sound _ _ E) as (z' & He & Hz & _). apply py_eq_int_int in He. subst z'. contradiction.
  Qed.

  Lemma int_decode_listed z : In (EInt z) vs ->
    exists k, enum_decode cls (JInt z) = DMember k /\ enum_value cls k = Some (JInt z).
  Proof.
    intros Hz. destruct (In_nth_error _ _ Hz) as (i & Hi).
    pose proof (entries_from_nth vs 0 i _ Hi) as Hent.
    apply (vfl_exact vs m (int_entries_functional vs Hint) Hm) in Hent. cbn [esc_ev] in Hent.
    assert (Hc : In (member_key (0 + N.of_nat i) (EInt z), JInt z) cls).
    { apply int_cls_In. exists z. auto. }
    destruct (enum_lookup_some cls (JInt z) _ _ Hc (py_eq_int_refl z)) as (k' & Hk').
    exists k'. unfold enum_decode. rewrite Hk'. split; [reflexivity|].
    destruct (int_decode_sound _ _ Hk') as (z' & He & _ & Hv). apply py_eq_int_int in He. subst z'. exact Hv.
  Qed.
End IntEnum.

Theorem enum_exact_int : forall vs m,
  forallb ev_is_int vs = true -> values_from_list vs = Some m ->
  exists cls, int_enum_class m = Some cls /\
    (forall z, In (EInt z) vs -> exists k, enum_decode cls (JInt z) = DMember k /\ enum_value cls k = Some (JInt z)) /\
    (forall j k, enum_lookup cls j = Some k ->
       exists z, py_eq j (JInt z) = true /\ In (EInt z) vs /\ enum_value cls k = Some (JInt z)) /\
    (forall z, ~ In (EInt z) vs -> enum_decode cls (JInt z) = DFail) /\
    (forall k w, In (k, w) cls -> exists z, w = JInt z /\ In (EInt z) vs).
Proof.
  intros vs m Hint Hm. destruct (int_class_exists vs m Hint Hm) as (cls & Hcls). exists cls.
  split; [exact Hcls|]. split; [|split; [|split]].
  - apply (int_decode_listed vs m Hint Hm cls Hcls).
  - apply (int_decode_sound vs m Hint Hm cls Hcls).
  - apply (int_decode_unlisted vs m Hint Hm cls Hcls).
  - apply (int_members_declared vs m Hint Hm cls Hcls).
Qed.

(* integer lists never raise: the table always exists *)
Lemma go_int_total : forall vs i out, forallb ev_is_int vs = true -> exists m, values_from_list_go i vs out = Some m.
Proof.
  induction vs as [|e vs IH]; intros i out H; [exists out; reflexivity|].
  cbn [forallb] in H. apply andb_prop in H as [He H]. destruct e as [z|s]; [|discriminate].
  cbn [values_from_list_go]. apply IH. exact H.
Qed.

Theorem int_enum_never_raises : forall vs, forallb ev_is_int vs = true -> exists m, values_from_list vs = Some m.
Proof. intros vs H. apply go_int_total. exact H. Qed.

(* Python equality aliases: a JSON true decodes to the member 1 (the guard of strict exactness is j = JInt _) *)
Theorem enum_numeric_alias_refuted : exists vs m cls k,
  values_from_list vs = Some m /\ int_enum_class m = Some cls /\ enum_decode cls (JBool true) = DMember k.
Proof.
  exists [EInt 1%Z], [([86;65;76;85;69;95;49], EInt 1%Z)], [([86;65;76;85;69;95;49], JInt 1%Z)], [86;65;76;85;69;95;49].
  split; [vm_compute; reflexivity|]. split; vm_compute; reflexivity.
Qed.

(* ================= C14: literal enums (literal_enum.py.jinja) ================= *)

Definition ev_repr_printable (e : evalue) : bool := match e with EStr s => repr_printable s | EInt _ => true end.
(* domain restriction of the MODEL (the lexer does not decode \x, \u escapes); not a defect class of the code *)
Definition g_repr_printable (vals : list evalue) : bool := forallb ev_repr_printable vals.

Lemma lit_member_ok e : ev_repr_printable e = true -> lit_member e = Some (wire e).
Proof.
  destruct e as [z|s]; cbn [ev_repr_printable lit_member wire]; intros H.
  - rewrite parse_int_dec_Z. reflexivity.
  - rewrite (repr_roundtrip_printable s H). reflexivity.
Qed.

Lemma py_eq_wire_refl e : py_eq (wire e) (wire e) = true.
Proof. destruct e; [apply py_eq_int_refl | apply py_eq_str_refl]. Qed.

Theorem literal_enum_exact : forall vals, g_repr_printable vals = true ->
  exists lv, literal_values vals = Some lv /\
    (forall j, In j lv <-> exists e, In e vals /\ j = wire e) /\
    (forall e, In e vals -> literal_decode lv (wire e) = DValue (wire e)) /\
    (forall j, literal_check lv j = true -> exists e, In e vals /\ py_eq j (wire e) = true) /\
    (forall s, ~ In (EStr s) vals -> literal_decode lv (JStr s) = DFail) /\
    (forall z, ~ In (EInt z) vals -> literal_decode lv (JInt z) = DFail).
Proof.
  intros vals Hg. unfold g_repr_printable in Hg. rewrite forallb_forall in Hg.
  destruct (map_opt_total lit_member vals) as (lv & Hlv).
  { intros e He. exists (wire e). apply lit_member_ok. apply Hg. exact He. }
  exists lv. split; [exact Hlv|].
  assert (HIn : forall j, In j lv <-> exists e, In e vals /\ j = wire e).
  { intros j. unfold literal_values in Hlv. rewrite (map_opt_In _ _ _ Hlv). split.
    - intros (e & He & Hf). rewrite (lit_member_ok e (Hg e He)) in Hf. injection Hf as <-. exists e. auto.
    - intros (e & He & ->). exists e. split; [exact He | apply lit_member_ok; apply Hg; exact He]. }
  assert (HChk : forall j, literal_check lv j = true -> exists e, In e vals /\ py_eq j (wire e) = true).
  { intros j H. unfold literal_check in H. apply existsb_exists in H as (w & Hw & He).
    apply HIn in Hw as (e & Hev & ->). exists e. auto. }
  split; [exact HIn|]. split; [|split; [exact HChk|split]].
  - intros e He. unfold literal_decode.
    assert (C : literal_check lv (wire e) = true).
    { unfold literal_check. apply existsb_exists. exists (wire e). split; [apply HIn; exists e; auto | apply py_eq_wire_refl]. }
    rewrite C. reflexivity.
  - intros s Hs. unfold literal_decode. destruct (literal_check lv (JStr s)) eqn:C; [|reflexivity].
    destruct (HChk _ C) as (e & He & Hp). exfalso. destruct e as [z|s'].
    + cbn [wire py_eq as_int] in Hp. discriminate.
    + cbn [wire py_eq] in Hp. apply str_eqb_eq in Hp. subst s'. contradiction.
  - intros z Hz. unfold literal_decode. destruct (literal_check lv (JInt z)) eqn:C; [|reflexivity].
    destruct (HChk _ C) as (e & He & Hp). exfalso. destruct e as [z'|s'].
    + cbn [wire] in Hp. apply py_eq_int_int in Hp. subst z'. contradiction.
    + cbn [wire py_eq as_int] in Hp. discriminate.
Qed.

(* ================= C14: a null among the values ================= *)

Lemma all_ints_wire : forall l vs, all_ints l = Some vs -> map wire vs = l.
Proof.
  induction l as [|j l IH]; intros vs H.
  - cbn [all_ints] in H. injection H as <-. reflexivity.
  - cbn [all_ints] in H. destruct j as [|b|z|f|s|s]; try discriminate.
    destruct (all_ints l) as [t|]; [|discriminate]. injection H as <-. cbn [map wire]. f_equal. apply IH. reflexivity.
Qed.
Lemma all_strs_wire : forall l vs, all_strs l = Some vs -> map wire vs = l.
Proof.
  induction l as [|j l IH]; intros vs H.
  - cbn [all_strs] in H. injection H as <-. reflexivity.
  - cbn [all_strs] in H. destruct j as [|b|z|f|s|s]; try discriminate.
    destruct (all_strs l) as [t|]; [|discriminate]. injection H as <-. cbn [map wire]. f_equal. apply IH. reflexivity.
Qed.

Lemma filter_len_le {A : Type} (f : A -> bool) : forall l, (length (filter f l) <= length l)%nat.
Proof. induction l as [|a l IH]; [apply le_n|]. cbn [filter]. destruct (f a); cbn [length]; lia. Qed.

Lemma filter_length_lt {A : Type} (f : A -> bool) : forall l x, In x l -> f x = false ->
  (length (filter f l) < length l)%nat.
Proof.
  induction l as [|a l IH]; intros x Hin Hx; [destruct Hin|].
  cbn [filter length]. destruct Hin as [->|Hin].
  - rewrite Hx. pose proof (filter_len_le f l). lia.
  - specialize (IH x Hin Hx). destruct (f a); cbn [length]; lia.
Qed.

Definition not_null (j : jval) : bool := negb (is_null j).

Lemma wire_not_null e : wire e <> JNull.
Proof. destruct e; discriminate. Qed.

(* the members of a nullable/plain result are exactly the non-null declared values *)
Definition build_values_exact (enum : list jval) (vs : list evalue) : Prop :=
  map wire vs = filter not_null enum.

Theorem null_makes_nullable : forall enum, In JNull enum ->
  match enum_build enum with
  | BPlain _ _ => False
  | BNullable _ vs => build_values_exact enum vs
  | BNoneProp => forall j, In j enum -> j = JNull
  | BMixed | BUnsupported => True
  end.
Proof.
  intros enum Hnull. unfold enum_build. fold not_null.
  destruct (filter not_null enum) as [|j0 nn'] eqn:Enn.
  - intros j Hj. destruct j; try reflexivity.
    all: exfalso; assert (X : In _ (filter not_null enum)) by (apply filter_In; split; [exact Hj | reflexivity]);
      rewrite Enn in X; destruct X.
  - rewrite <- Enn.
    destruct (negb (forallb _ (filter not_null enum))); [exact I|].
    assert (Hlt : (length (filter not_null enum) <? length enum)%nat = true).
    { apply Nat.ltb_lt. apply (filter_length_lt not_null enum JNull Hnull). reflexivity. }
    rewrite Hlt.
    destruct (all_ints (filter not_null enum)) as [vs|] eqn:Ei.
    + apply all_ints_wire in Ei. exact Ei.
    + destruct (all_strs (filter not_null enum)) as [vs|] eqn:Es; [|exact I].
      apply all_strs_wire in Es. exact Es.
Qed.

Theorem no_null_plain : forall enum, ~ In JNull enum ->
  match enum_build enum with
  | BNullable _ _ => False
  | BPlain _ vs => map wire vs = enum
  | _ => True
  end.
Proof.
  intros enum Hn. unfold enum_build. fold not_null.
  assert (E : filter not_null enum = enum).
  { clear -Hn. induction enum as [|j l IH]; [reflexivity|]. cbn [filter].
    destruct j; cbn [not_null is_null negb]; try (f_equal; apply IH; intros H; apply Hn; right; exact H).
    exfalso. apply Hn. left; reflexivity. }
  rewrite E. destruct enum as [|j0 r]; [exact I|].
  destruct (negb (forallb _ (j0 :: r))); [exact I|].
  rewrite Nat.ltb_irrefl.
  destruct (all_ints (j0 :: r)) as [vs|] eqn:Ei.
  - apply all_ints_wire in Ei. exact Ei.
  - destruct (all_strs (j0 :: r)) as [vs|] eqn:Es; [|exact I]. apply all_strs_wire in Es. exact Es.
Qed.

(* null is accepted by the nullable decoders and is never a member *)
Theorem nullable_accepts_null : forall vt cls lv,
  nullable_enum_decode vt cls JNull = DNone /\ nullable_literal_decode vt lv JNull = DNone.
Proof. intros. split; reflexivity. Qed.

(* finding nullable_enum_passthrough: behind a null, an unlisted value is not rejected but passed through undecoded *)
Theorem nullable_passthrough_refuted : exists vt cls j,
  enum_lookup cls j = None /\ j <> JNull /\ nullable_enum_decode vt cls j = DRaw j.
Proof.
  exists VStr, [([65], JStr [97])], (JStr [122]). split; [reflexivity|]. split; [discriminate | reflexivity].
Qed.

(* a listed value is still decoded to its member behind a null *)
Theorem nullable_decode_listed : forall vt cls j k, j <> JNull -> isinstance_vt vt j = true ->
  enum_lookup cls j = Some k -> nullable_enum_decode vt cls j = DMember k.
Proof.
  intros vt cls j k Hj Hi Hl. unfold nullable_enum_decode. rewrite Hi, Hl. destruct j; try reflexivity. congruence.
Qed.

(* ================= refutations outside the guards ================= *)

(* finding enum_backslash: the value a\b reaches the class body as DQ a\b DQ, which Python reads as a, backspace, b *)
Theorem enum_backslash_refuted : exists vs m cls,
  values_from_list vs = Some m /\ str_enum_class m = Some cls /\ enum_decode cls (JStr [97;92;98]) = DFail /\
  In (EStr [97;92;98]) vs.
Proof.
  exists [EStr [97;92;98]], [([65;66], EStr [97;92;98])], [([65;66], JStr [97;8])].
  split; [vm_compute; reflexivity|]. split; [vm_compute; reflexivity|]. split; [vm_compute; reflexivity | left; reflexivity].
Qed.

Example g_enum_nontrivial :
  g_enum_sanitised_distinct [EStr [97;32;98]; EStr [99]; EStr [49;120]; EStr []] = true /\
  g_no_bs_nl [EStr [97;32;98]; EStr [99;34]; EStr [49;120]; EStr []] = true /\
  g_member_names [EStr [97;32;98]; EStr [99;34]; EStr [49;120]; EStr []; EStr [233;45;20013]] = true.
Proof. repeat split; vm_compute; reflexivity. Qed.

(* finding xid_gap (C09) reaching member names: the value a followed by superscript two gives a member name that is not an identifier *)
Theorem enum_member_name_refuted : exists vs m, values_from_list vs = Some m /\ str_enum_class m = None /\ g_member_names vs = false.
Proof. exists [EStr [97;178]], [([65;178], EStr [97;178])]. repeat split; vm_compute; reflexivity. Qed.

Example g_enum_merge_outside : g_enum_sanitised_distinct [EStr [97;32;98]; EStr [97;45;98]] = false.
Proof. vm_compute. reflexivity. Qed.

(* ================= C14: const ================= *)

Definition fsafe_c (ch : N) : bool := negb ((ch =? 34) || (ch =? 123) || (ch =? 125)).

Lemma digit_fsafe c : is_digit c = true -> fsafe_c c = true.
Proof.
  unfold is_digit, fsafe_c. intros H. apply andb_prop in H as [H1 H2]. apply N.leb_le in H1, H2.
  destruct (N.eqb_spec c 34); [lia|]. destruct (N.eqb_spec c 123); [lia|]. destruct (N.eqb_spec c 125); [lia|]. reflexivity.
Qed.

Lemma dec_pos_fuel_digits : forall f n acc, forallb is_digit acc = true -> forallb is_digit (dec_pos_fuel f n acc) = true.
Proof.
  induction f as [|f IH]; intros n acc H; [exact H|].
  rewrite dec_pos_fuel_S.
  assert (H' : forallb is_digit ((48 + n mod 10) :: acc) = true).
  { cbn [forallb]. rewrite is_digit_dig. exact H. }
  destruct (n / 10 =? 0); [exact H' | apply IH; exact H'].
Qed.

Lemma dec_N_digits n : forallb is_digit (dec_N n) = true.
Proof. unfold dec_N. apply dec_pos_fuel_digits. reflexivity. Qed.

Lemma forallb_impl {A : Type} (f g : A -> bool) l : (forall a, f a = true -> g a = true) -> forallb f l = true -> forallb g l = true.
Proof.
  intros H. induction l as [|a l IH]; [reflexivity|]. cbn [forallb]. intros X. apply andb_prop in X as [X1 X2].
  rewrite (H a X1), (IH X2). reflexivity.
Qed.

Lemma fstring_safe_dec_Z z : fstring_safe (dec_Z z) = true.
Proof.
  unfold fstring_safe. fold fsafe_c.
  destruct z as [|p|p]; unfold dec_Z.
  - reflexivity.
  - apply (forallb_impl is_digit); [apply digit_fsafe | apply dec_N_digits].
  - cbn [forallb]. change (fsafe_c 45) with true. cbn [andb].
    apply (forallb_impl is_digit); [apply digit_fsafe | apply dec_N_digits].
Qed.

Theorem const_int_exact : forall z j, const_accepts (JInt z) j = Some (py_eq j (JInt z)).
Proof.
  intros z j. unfold const_accepts, const_value. cbn [conv_any py_str code].
  rewrite fstring_safe_dec_Z. cbn [negb]. rewrite int_code_evals. reflexivity.
Qed.

Theorem const_bool_exact : forall b j, const_accepts (JBool b) j = Some (py_eq j (JBool b)).
Proof.
  intros b j. unfold const_accepts.
  assert (E : const_value (JBool b) = Some (JBool b)) by (destruct b; vm_compute; reflexivity).
  rewrite E. reflexivity.
Qed.

(* string constants: printable, and free of both quotes and braces (complement = finding const_fstring_break) *)
Definition cstr_c (c : N) : bool := negb ((c =? 34) || (c =? 39) || (c =? 123) || (c =? 125)).
Definition g_const_str (s : str) : bool := repr_printable s && forallb cstr_c s.

Lemma sq_ne_True t : str_eqb (39 :: t) s_True = false. Proof. reflexivity. Qed.
Lemma sq_ne_False t : str_eqb (39 :: t) s_False = false. Proof. reflexivity. Qed.
Lemma sq_ne_None t : str_eqb (39 :: t) s_None = false. Proof. reflexivity. Qed.
Lemma sq_parse_int t : parse_int (39 :: t) = None. Proof. reflexivity. Qed.
Lemma sq_float t : is_float_tok (39 :: t) = false. Proof. reflexivity. Qed.

Lemma eval_code_sq t v : lex_string (39 :: t) = Some (v, []) -> eval_code (39 :: t) = Some (PVStr v).
Proof.
  intros H. unfold eval_code. rewrite sq_ne_True, sq_ne_False, sq_ne_None, sq_parse_int, sq_float, H. reflexivity.
Qed.

Lemma forallb_flat_map {A B : Type} (p : B -> bool) (f : A -> list B) l :
  (forall a, In a l -> forallb p (f a) = true) -> forallb p (flat_map f l) = true.
Proof.
  induction l as [|a l IH]; intros H; [reflexivity|]. cbn [flat_map]. rewrite forallb_app.
  rewrite (H a (or_introl eq_refl)). cbn [andb]. apply IH. intros a' Ha'. apply H. right; exact Ha'.
Qed.

Lemma cstr_no_quote s q : (q = 34 \/ q = 39) -> forallb cstr_c s = true -> existsb (N.eqb q) s = false.
Proof.
  intros Hq H. induction s as [|c s IH]; [reflexivity|]. cbn [forallb] in H. apply andb_prop in H as [Hc Hs].
  cbn [existsb]. rewrite (IH Hs). unfold cstr_c in Hc. apply negb_true_iff in Hc.
  apply orb_false_iff in Hc as [Hc _]. apply orb_false_iff in Hc as [Hc _]. apply orb_false_iff in Hc as [H34 H39].
  rewrite N.eqb_sym. destruct Hq; subst q; [rewrite H34 | rewrite H39]; reflexivity.
Qed.

Lemma const_str_value s : g_const_str s = true -> const_value (JStr s) = Some (JStr s).
Proof.
  intros H. unfold g_const_str in H. apply andb_prop in H as [Hp Hc].
  pose proof (cstr_no_quote s 34 (or_introl eq_refl) Hc) as Hdq.
  pose proof (cstr_no_quote s 39 (or_intror eq_refl) Hc) as Hsq.
  unfold const_value. cbn [conv_any conv_string py_str code].
  rewrite (escape_dq_id s Hdq).
  assert (Eq : repr_quote s = SQ).
  { unfold repr_quote. change SQ with 39. rewrite Hsq. reflexivity. }
  assert (Er : py_repr s = 39 :: flat_map (repr_char 39) s ++ [39]).
  { unfold py_repr. rewrite Eq. reflexivity. }
  assert (Safe : fstring_safe (py_repr s) = true).
  { rewrite Er. unfold fstring_safe. fold fsafe_c. cbn [forallb]. change (fsafe_c 39) with true. cbn [andb].
    rewrite forallb_app. cbn [forallb]. change (fsafe_c 39) with true. rewrite !andb_true_r.
    apply forallb_flat_map. intros c Hin.
    unfold repr_printable in Hp. rewrite forallb_forall in Hp. rewrite forallb_forall in Hc.
    rewrite (repr_char_printable 39 c (Hp c Hin)). specialize (Hc c Hin).
    assert (Fc : fsafe_c c = true).
    { unfold cstr_c in Hc. unfold fsafe_c. apply negb_true_iff in Hc. apply negb_true_iff.
      apply orb_false_iff in Hc as [Hc H125]. apply orb_false_iff in Hc as [Hc H123]. apply orb_false_iff in Hc as [H34 _].
      rewrite H34, H123, H125. reflexivity. }
    destruct ((c =? 39) || (c =? BS)); cbn [forallb]; rewrite Fc; reflexivity. }
  rewrite Safe. cbn [negb].
  pose proof (repr_roundtrip_printable s Hp) as L. rewrite Er in L |- *.
  rewrite (eval_code_sq _ _ L). reflexivity.
Qed.

Theorem const_str_exact : forall s j, g_const_str s = true -> const_accepts (JStr s) j = Some (py_eq j (JStr s)).
Proof. intros s j H. unfold const_accepts. rewrite (const_str_value s H). reflexivity. Qed.

Definition g_const (cv : jval) : bool :=
  match cv with JStr s => g_const_str s | JInt _ | JBool _ => true | _ => false end.

(* the const check accepts exactly the values Python considers equal to the constant *)
Theorem const_exact : forall cv j, g_const cv = true -> const_accepts cv j = Some (py_eq j cv).
Proof.
  intros cv j H. destruct cv as [|b|z|f|s|s]; try discriminate H.
  - apply const_bool_exact.
  - apply const_int_exact.
  - apply const_str_exact. exact H.
Qed.

(* and, for an instance of the constant's own JSON type, Python equality is identity *)
Lemma tag_other s : tag_of (JOther s) = TDict \/ tag_of (JOther s) = TList.
Proof. destruct s as [|c r]; [right; reflexivity|]. cbn [tag_of]. destruct (c =? 123); auto. Qed.

Theorem py_eq_same_type : forall cv j, g_const cv = true -> tag_of j = tag_of cv -> py_eq j cv = true -> j = cv.
Proof.
  intros cv j Hg Ht He. destruct cv as [|b|z|f|s|s]; try discriminate Hg.
  - destruct j as [|b'|z'|f'|s'|s']; try discriminate Ht.
    + destruct b, b'; try reflexivity; vm_compute in He; discriminate He.
    + destruct (tag_other s') as [E|E]; rewrite E in Ht; discriminate Ht.
  - destruct j as [|b'|z'|f'|s'|s']; try discriminate Ht.
    + apply py_eq_int_int in He. congruence.
    + destruct (tag_other s') as [E|E]; rewrite E in Ht; discriminate Ht.
  - apply py_eq_str_r. exact He.
Qed.

(* finding numeric_alias: Python == identifies true with 1 and 1.0 with 1 *)
Theorem const_numeric_alias_refuted :
  const_accepts (JInt 1%Z) (JBool true) = Some true /\
  const_accepts (JInt 1%Z) (JFloat {| f_tok := [49;46;48]; f_int := Some 1%Z; f_finite := true |}) = Some true.
Proof. split; vm_compute; reflexivity. Qed.

(* finding const_fstring_break: a quote in a string constant breaks the generated module *)
Theorem const_quote_refuted : const_value (JStr [97;34;98]) = None /\ const_value (JStr [105;116;39;115]) = None.
Proof. split; vm_compute; reflexivity. Qed.

Example g_const_nontrivial : g_const (JStr [97;32;233;92;98]) = true.
Proof. vm_compute. reflexivity. Qed.

Print Assumptions vfl_members_sub.
Print Assumptions vfl_exact.
Print Assumptions enum_dup_reported.
Print Assumptions enum_exact_str.
Print Assumptions enum_exact_int.
Print Assumptions int_enum_never_raises.
Print Assumptions literal_enum_exact.
Print Assumptions null_makes_nullable.
Print Assumptions no_null_plain.
Print Assumptions nullable_decode_listed.
Print Assumptions const_exact.
Print Assumptions py_eq_same_type.
