(* MapsThm.v — finite maps as key-sorted association lists (Codec.v: str_cmp, m_get, m_del, m_put, m_sorted): generic lemmas. *)
From Coq Require Import NArith ZArith List Bool Lia.
Import ListNotations.
Require Import OPC.gen.GenKinds OPC.Uni OPC.Names OPC.NamesThm OPC.Codec.
Open Scope N_scope.

(* ------------------------------------------------------------------ str_cmp is a total order *)
Lemma str_cmp_refl a : str_cmp a a = Eq.
Proof. induction a as [|x a IH]; simpl; [reflexivity|]. now rewrite N.compare_refl. Qed.

Lemma str_cmp_eq a : forall b, str_cmp a b = Eq <-> a = b.
Proof.
  induction a as [|x a IH]; intros [|y b]; simpl; split; intro H; try reflexivity; try discriminate.
  - destruct (N.compare x y) eqn:E; try discriminate. apply N.compare_eq_iff in E. apply IH in H. now subst.
  - injection H as -> ->. rewrite N.compare_refl. now apply IH.
Qed.

Lemma str_cmp_antisym a : forall b, str_cmp b a = CompOpp (str_cmp a b).
Proof.
  induction a as [|x a IH]; intros [|y b]; simpl; try reflexivity.
  rewrite (N.compare_antisym x y). destruct (N.compare x y); simpl; auto.
Qed.

Lemma str_cmp_gt_lt a b : str_cmp a b = Gt <-> str_cmp b a = Lt.
Proof. rewrite (str_cmp_antisym a b). destruct (str_cmp a b); simpl; split; congruence. Qed.

Lemma str_cmp_lt_trans a : forall b c, str_cmp a b = Lt -> str_cmp b c = Lt -> str_cmp a c = Lt.
Proof.
  induction a as [|x a IH]; intros [|y b] [|z c]; simpl; intros H1 H2; try discriminate; try reflexivity.
  destruct (N.compare x y) eqn:E1; try discriminate.
  - apply N.compare_eq_iff in E1. subst y. destruct (N.compare x z) eqn:E2; try discriminate; eauto.
  - destruct (N.compare y z) eqn:E2; try discriminate.
    + apply N.compare_eq_iff in E2. subst z. now rewrite E1.
    + rewrite N.compare_lt_iff in E1, E2. assert (E3: (x < z)) by lia. apply N.compare_lt_iff in E3. now rewrite E3.
Qed.

Lemma str_cmp_eqb a b : str_eqb a b = match str_cmp a b with Eq => true | _ => false end.
Proof.
  destruct (str_cmp a b) eqn:E.
  - apply str_cmp_eq in E. now apply str_eqb_eq.
  - destruct (str_eqb a b) eqn:E2; [|reflexivity]. apply str_eqb_eq in E2. subst. now rewrite str_cmp_refl in E.
  - destruct (str_eqb a b) eqn:E2; [|reflexivity]. apply str_eqb_eq in E2. subst. now rewrite str_cmp_refl in E.
Qed.

Lemma str_eqb_refl a : str_eqb a a = true.
Proof. now apply str_eqb_eq. Qed.

Lemma str_eqb_neq a b : a <> b -> str_eqb a b = false.
Proof. intro H. destruct (str_eqb a b) eqn:E; [|reflexivity]. apply str_eqb_eq in E. contradiction. Qed.

Lemma str_cmp_neq a b : a <> b -> str_cmp a b <> Eq.
Proof. intros H E. apply str_cmp_eq in E. contradiction. Qed.

(* ------------------------------------------------------------------ maps *)
Section MapLemmas.
  Context {A : Type}.
  Implicit Types m : smap A.

  Definition hd_lt (k : str) (m : smap A) : Prop := match m with [] => True | (k', _) :: _ => str_cmp k k' = Lt end.

  Lemma m_sorted_cons k v m : m_sorted ((k, v) :: m) = true <-> hd_lt k m /\ m_sorted m = true.
  Proof.
    destruct m as [|[k' v'] m']; simpl.
    - tauto.
    - destruct (str_cmp k k'); split; try tauto; try (intro H; discriminate H); intros [H _]; discriminate H.
  Qed.

  (* keys not above the head key are absent from the tail *)
  Lemma hd_lt_get_none k k' m : hd_lt k m -> str_cmp k' k <> Gt -> m_get k' m = None.
  Proof.
    destruct m as [|[k2 v2] m']; simpl; [reflexivity|]. intros H1 H2.
    assert (E: str_cmp k' k2 = Lt).
    { destruct (str_cmp k' k) eqn:E; [apply str_cmp_eq in E; now subst | eapply str_cmp_lt_trans; eauto | congruence]. }
    now rewrite E.
  Qed.

  Lemma m_get_put_same k v m : m_get k (m_put k v m) = Some v.
  Proof.
    induction m as [|[k0 v0] m IH]; simpl.
    - now rewrite str_cmp_refl.
    - destruct (str_cmp k k0) eqn:E; simpl; rewrite ?str_cmp_refl, ?E; auto.
  Qed.

  Lemma m_get_put_other k k' v m : k <> k' -> m_get k' (m_put k v m) = m_get k' m.
  Proof.
    intro Hne. induction m as [|[k0 v0] m IH]; simpl.
    - destruct (str_cmp k' k) eqn:E; auto. apply str_cmp_eq in E. congruence.
    - destruct (str_cmp k k0) eqn:E; simpl.
      + apply str_cmp_eq in E. subst k0. destruct (str_cmp k' k) eqn:E2; auto. apply str_cmp_eq in E2. congruence.
      + destruct (str_cmp k' k) eqn:E2; auto.
        * apply str_cmp_eq in E2. congruence.
        * now rewrite (str_cmp_lt_trans _ _ _ E2 E).
      + destruct (str_cmp k' k0); auto.
  Qed.

  Lemma m_get_del_same k m : m_sorted m = true -> m_get k (m_del k m) = None.
  Proof.
    induction m as [|[k0 v0] m IH]; [reflexivity|]. intro Hs.
    apply m_sorted_cons in Hs as [Hh Hs]. simpl.
    destruct (str_cmp k k0) eqn:E.
    - apply str_cmp_eq in E. subst k0. apply (hd_lt_get_none k); auto. rewrite str_cmp_refl. discriminate.
    - simpl. now rewrite E.
    - simpl. rewrite E. auto.
  Qed.

  Lemma m_get_del_other k k' m : k <> k' -> m_sorted m = true -> m_get k' (m_del k m) = m_get k' m.
  Proof.
    intro Hne. induction m as [|[k0 v0] m IH]; [reflexivity|]. intro Hs.
    apply m_sorted_cons in Hs as [Hh Hs]. simpl.
    destruct (str_cmp k k0) eqn:E.
    - apply str_cmp_eq in E. subst k0. simpl. destruct (str_cmp k' k) eqn:E2; auto.
      + apply str_cmp_eq in E2. congruence.
      + apply (hd_lt_get_none k); auto. congruence.
    - reflexivity.
    - simpl. destruct (str_cmp k' k0); auto.
  Qed.

  Lemma hd_lt_put k0 k v m : str_cmp k0 k = Lt -> hd_lt k0 m -> hd_lt k0 (m_put k v m).
  Proof. destruct m as [|[k1 v1] m]; simpl; auto. destruct (str_cmp k k1); simpl; auto. Qed.

  Lemma m_sorted_put k v m : m_sorted m = true -> m_sorted (m_put k v m) = true.
  Proof.
    induction m as [|[k0 v0] m IH]; [reflexivity|]. intro Hs.
    pose proof Hs as Hs0. apply m_sorted_cons in Hs as [Hh Hs]. simpl m_put.
    destruct (str_cmp k k0) eqn:E.
    - apply str_cmp_eq in E. subst k0. apply m_sorted_cons. auto.
    - apply m_sorted_cons. split; [exact E | exact Hs0].
    - apply m_sorted_cons. split; [|auto]. apply hd_lt_put; auto. now apply str_cmp_gt_lt.
  Qed.

  Lemma hd_lt_del k0 k m : hd_lt k0 m -> m_sorted m = true -> hd_lt k0 (m_del k m).
  Proof.
    destruct m as [|[k1 v1] m]; [simpl; auto|]. intros H1 Hs. apply m_sorted_cons in Hs as [Hh Hs].
    simpl in H1 |- *. destruct (str_cmp k k1); simpl; auto.
    destruct m as [|[k2 v2] m]; simpl in *; auto. eapply str_cmp_lt_trans; eauto.
  Qed.

  Lemma m_sorted_del k m : m_sorted m = true -> m_sorted (m_del k m) = true.
  Proof.
    induction m as [|[k0 v0] m IH]; [reflexivity|]. intro Hs.
    pose proof Hs as Hs0. apply m_sorted_cons in Hs as [Hh Hs]. simpl m_del.
    destruct (str_cmp k k0) eqn:E; auto.
    apply m_sorted_cons. split; auto. apply hd_lt_del; auto.
  Qed.

  Lemma m_put_del k v m : m_sorted m = true -> m_get k m = Some v -> m_put k v (m_del k m) = m.
  Proof.
    induction m as [|[k0 v0] m IH]; [discriminate|]. intros Hs Hg.
    apply m_sorted_cons in Hs as [Hh Hs]. simpl in Hg |- *.
    destruct (str_cmp k k0) eqn:E; try discriminate.
    - apply str_cmp_eq in E. subst k0. injection Hg as ->.
      destruct m as [|[k1 v1] m]; simpl in *; [reflexivity|]. now rewrite Hh.
    - simpl. rewrite E. f_equal. auto.
  Qed.

  Lemma m_del_absent k m : m_get k m = None -> m_del k m = m.
  Proof.
    induction m as [|[k0 v0] m IH]; simpl; [reflexivity|].
    destruct (str_cmp k k0); try discriminate; auto. intro H. f_equal. auto.
  Qed.

  Lemma m_get_In k v m : m_get k m = Some v -> In (k, v) m.
  Proof.
    induction m as [|[k0 v0] m IH]; simpl; [discriminate|].
    destruct (str_cmp k k0) eqn:E; try discriminate.
    - apply str_cmp_eq in E. subst. intro H. injection H as ->. now left.
    - auto.
  Qed.

  Lemma m_del_In x k m : In x (m_del k m) -> In x m.
  Proof.
    induction m as [|[k0 v0] m IH]; simpl; auto.
    destruct (str_cmp k k0); simpl; auto. intros [H|H]; auto.
  Qed.

  (* a sorted map is determined by its lookup function *)
  Lemma m_ext m1 : forall m2, m_sorted m1 = true -> m_sorted m2 = true ->
    (forall k, m_get k m1 = m_get k m2) -> m1 = m2.
  Proof.
    induction m1 as [|[k1 v1] m1 IH]; intros [|[k2 v2] m2] Hs1 Hs2 He; auto.
    - specialize (He k2). simpl in He. rewrite str_cmp_refl in He. discriminate.
    - specialize (He k1). simpl in He. rewrite str_cmp_refl in He. discriminate.
    - apply m_sorted_cons in Hs1 as [Hh1 Hs1]. apply m_sorted_cons in Hs2 as [Hh2 Hs2].
      destruct (str_cmp k1 k2) eqn:E.
      + apply str_cmp_eq in E. subst k2.
        pose proof (He k1) as H1. simpl in H1. rewrite str_cmp_refl in H1. injection H1 as ->.
        f_equal. apply IH; auto. intro k. specialize (He k). simpl in He.
        destruct (str_cmp k k1) eqn:E2; auto.
        * rewrite (hd_lt_get_none k1 k m1), (hd_lt_get_none k1 k m2); auto; congruence.
        * rewrite (hd_lt_get_none k1 k m1), (hd_lt_get_none k1 k m2); auto; congruence.
      + specialize (He k1). simpl in He. rewrite str_cmp_refl, E in He. discriminate.
      + specialize (He k2). simpl in He. rewrite str_cmp_refl in He. apply str_cmp_gt_lt in E. rewrite E in He. discriminate.
  Qed.

  Lemma m_put_comm k1 v1 k2 v2 m : k1 <> k2 -> m_sorted m = true ->
    m_put k1 v1 (m_put k2 v2 m) = m_put k2 v2 (m_put k1 v1 m).
  Proof.
    intros Hne Hs. apply m_ext; try (repeat apply m_sorted_put; exact Hs).
    intro k.
    destruct (str_cmp k k1) eqn:E1.
    - apply str_cmp_eq in E1. subst k. rewrite m_get_put_same, m_get_put_other, m_get_put_same; auto.
    - assert (k1 <> k) by (intro; subst; now rewrite str_cmp_refl in E1).
      rewrite (m_get_put_other k1 k); auto.
      destruct (str_cmp k k2) eqn:E2.
      + apply str_cmp_eq in E2. subst k. now rewrite !m_get_put_same.
      + assert (k2 <> k) by (intro; subst; now rewrite str_cmp_refl in E2).
        rewrite !(m_get_put_other k2 k), (m_get_put_other k1 k); auto.
      + assert (k2 <> k) by (intro; subst; now rewrite str_cmp_refl in E2).
        rewrite !(m_get_put_other k2 k), (m_get_put_other k1 k); auto.
    - assert (k1 <> k) by (intro; subst; now rewrite str_cmp_refl in E1).
      rewrite (m_get_put_other k1 k); auto.
      destruct (str_cmp k k2) eqn:E2.
      + apply str_cmp_eq in E2. subst k. now rewrite !m_get_put_same.
      + assert (k2 <> k) by (intro; subst; now rewrite str_cmp_refl in E2).
        rewrite !(m_get_put_other k2 k), (m_get_put_other k1 k); auto.
      + assert (k2 <> k) by (intro; subst; now rewrite str_cmp_refl in E2).
        rewrite !(m_get_put_other k2 k), (m_get_put_other k1 k); auto.
  Qed.

  (* what a lookup in an updated map can return (no sortedness needed) *)
  Lemma m_get_put_inv k v k' x m : m_get k' (m_put k v m) = Some x -> k' = k \/ m_get k' m = Some x.
  Proof.
    intro H. destruct (str_cmp k' k) eqn:E.
    - left. now apply str_cmp_eq.
    - right. rewrite m_get_put_other in H; auto. intro; subst; now rewrite str_cmp_refl in E.
    - right. rewrite m_get_put_other in H; auto. intro; subst; now rewrite str_cmp_refl in E.
  Qed.
End MapLemmas.

(* ------------------------------------------------------------------ put_all (maps of JSON values) *)
Lemma put_all_sorted kvs : forall m, m_sorted m = true -> m_sorted (put_all kvs m) = true.
Proof. induction kvs as [|[k v] r IH]; simpl; auto. intros m H. apply IH. now apply m_sorted_put. Qed.

Lemma put_all_get m : forall m0 key, m_sorted m = true ->
  m_get key (put_all m m0) = match m_get key m with Some x => Some x | None => m_get key m0 end.
Proof.
  induction m as [|[k v] m IH]; intros m0 key Hs; simpl; [reflexivity|].
  apply m_sorted_cons in Hs as [Hh Hs]. rewrite IH by exact Hs.
  destruct (str_cmp key k) eqn:E.
  - apply str_cmp_eq in E. subst key. rewrite (hd_lt_get_none k k m); auto.
    + apply m_get_put_same.
    + rewrite str_cmp_refl. discriminate.
  - rewrite (hd_lt_get_none k key m); auto; [|congruence].
    apply m_get_put_other. intro; subst; now rewrite str_cmp_refl in E.
  - destruct (m_get key m); auto. apply m_get_put_other. intro; subst; now rewrite str_cmp_refl in E.
Qed.

Lemma put_all_id m : m_sorted m = true -> put_all m [] = m.
Proof.
  intro Hs. apply m_ext; auto.
  - now apply put_all_sorted.
  - intro k. rewrite put_all_get by exact Hs. destruct (m_get k m); reflexivity.
Qed.

Lemma put_all_comm kvs : forall n j m, ~ In n (map fst kvs) -> m_sorted m = true ->
  put_all kvs (m_put n j m) = m_put n j (put_all kvs m).
Proof.
  induction kvs as [|[k v] r IH]; intros n j m Hn Hs; simpl; [reflexivity|].
  simpl in Hn. rewrite m_put_comm; auto. apply IH; auto. now apply m_sorted_put.
Qed.

Lemma put_all_get_inv kvs : forall m key x, m_get key (put_all kvs m) = Some x ->
  In key (map fst kvs) \/ m_get key m = Some x.
Proof.
  induction kvs as [|[k v] r IH]; intros m key x H; simpl in *; auto.
  apply IH in H as [H|H]; auto. apply m_get_put_inv in H as [H|H]; auto.
Qed.
