(* NamesThm.v — proofs about Names.v (C09, used by C05/C19/C01). *)
From Coq Require Import NArith List Bool Lia.
Import ListNotations.
Require Import OPC.gen.GenTables OPC.Uni OPC.Names.
Open Scope N_scope.

(* ---------- generic list / string lemmas ---------- *)
Lemma str_eqb_eq a : forall b, str_eqb a b = true <-> a = b.
Proof.
  induction a as [|x a IH]; intros [|y b]; simpl; split; intro H; try reflexivity; try discriminate.
  - apply andb_true_iff in H as [H1 H2]. apply N.eqb_eq in H1. apply IH in H2. now subst.
  - injection H as -> ->. rewrite N.eqb_refl. simpl. now apply IH.
Qed.

Lemma mem_str_In s l : mem_str s l = true <-> In s l.
Proof.
  unfold mem_str. rewrite existsb_exists. split.
  - intros [x [Hx He]]. apply str_eqb_eq in He. now subst.
  - intro H. exists s. split; [exact H|]. now apply str_eqb_eq.
Qed.

Lemma memN_In c l : memN c l = true <-> In c l.
Proof.
  unfold memN. rewrite existsb_exists. split.
  - intros [x [Hx He]]. apply N.eqb_eq in He. now subst.
  - intro H. exists c. split; [exact H|]. apply N.eqb_refl.
Qed.

Lemma is_prefix_app p : forall x, is_prefix p (p ++ x) = true.
Proof. induction p as [|c p IH]; intro x; simpl; [reflexivity|]. now rewrite N.eqb_refl, IH. Qed.

Lemma lookup_In m c v : lookup m c = Some v -> In (c, v) m.
Proof.
  induction m as [|[k w] m IH]; simpl; [discriminate|].
  destruct (N.eqb_spec k c) as [->|Hne]; [intros [= <-]; now left | intro H; right; auto].
Qed.

Lemma map_preserves_sound P Q m :
  map_preserves P Q m = true -> (forall c, P c = true -> Q c = true) ->
  forall c, P c = true -> forallb Q (map_c m c) = true.
Proof.
  intros Hm Hid c Hc. unfold map_c. destruct (lookup m c) as [v|] eqn:E.
  - apply lookup_In in E. unfold map_preserves in Hm. rewrite forallb_forall in Hm.
    specialize (Hm _ E). simpl in Hm. now rewrite Hc in Hm.
  - simpl. now rewrite Hid.
Qed.

(* ---------- where characters of derived names come from ---------- *)
Lemma sanitize_In v c : In c (sanitize v) -> In c v /\ (is_word c || is_delim c = true).
Proof. unfold sanitize. intro H. now apply filter_In in H. Qed.

Lemma take_az_In s : forall a r, take_az s = (a, r) ->
  (forall c, In c a -> In c s) /\ (forall c, In c r -> In c s).
Proof.
  induction s as [|x s IH]; simpl; intros a r H.
  - injection H as <- <-. split; intros c [].
  - destruct (az x).
    + destruct (take_az s) as [a' r'] eqn:E. injection H as <- <-.
      destruct (IH _ _ eq_refl) as [Ha Hr]. split; intros c Hc.
      * destruct Hc as [->|Hc]; [now left | right; auto].
      * right; auto.
    + injection H as <- <-. split; intros c Hc; [destruct Hc | exact Hc].
Qed.

Definition from3 (s gap : str) (acc : list str) (c : N) : Prop :=
  In c s \/ In c gap \/ exists w, In w acc /\ In c w.

Lemma flush_from s gap acc w c :
  In w (rev (match gap with [] => acc | _ => rev gap :: acc end)) -> In c w -> from3 s gap acc c.
Proof.
  intros Hw Hc. apply in_rev in Hw. destruct gap as [|g gap'].
  - right; right. now exists w.
  - destruct Hw as [<-|Hw].
    + right; left. now apply in_rev in Hc.
    + right; right. now exists w.
Qed.

Lemma scan_In fuel : forall s gap acc w c,
  In w (scan fuel s gap acc) -> In c w -> from3 s gap acc c.
Proof.
  induction fuel as [|f IH]; intros s gap acc w c Hw Hc.
  - simpl in Hw. eapply flush_from; eauto.
  - destruct s as [|x s'].
    + simpl in Hw. eapply flush_from; eauto.
    + (* helper for the two "match found" branches *)
      assert (Hmatch: forall a r, take_az s' = (a, r) ->
                In w (scan f r [] ((x :: a) :: match gap with [] => acc | _ => rev gap :: acc end)) ->
                from3 (x :: s') gap acc c).
      { intros a r E Hw'. destruct (take_az_In _ _ _ E) as [Ha Hr].
        destruct (IH _ _ _ _ _ Hw' Hc) as [H|[H|[w' [Hw'' Hc']]]].
        - left. right. auto.
        - destruct H.
        - destruct Hw'' as [<-|Hw''].
          + left. destruct Hc' as [->|Hc']; [now left | right; auto].
          + destruct gap as [|g gap'].
            * right; right. now exists w'.
            * destruct Hw'' as [<-|Hw''].
              -- right; left. now apply in_rev in Hc'.
              -- right; right. now exists w'. }
      assert (Hgap: In w (scan f s' (x :: gap) acc) -> from3 (x :: s') gap acc c).
      { intro Hw'. destruct (IH _ _ _ _ _ Hw' Hc) as [H|[H|H]].
        - left. now right.
        - destruct H as [->|H]; [left; now left | right; now left].
        - right; now right. }
      cbn [scan] in Hw.
      destruct (az x).
      * destruct (take_az s') as [a r] eqn:E. eapply Hmatch; eauto.
      * destruct (AZ x); [|now apply Hgap].
        destruct s' as [|d s'']; [now apply Hgap|].
        destruct (az d); [|now apply Hgap].
        destruct (take_az (d :: s'')) as [a r] eqn:E. eapply Hmatch; eauto.
Qed.

Lemma case_split_In s w c : In w (case_split s) -> In c w -> In c s.
Proof.
  unfold case_split. intros Hw Hc.
  destruct (scan_In _ _ _ _ _ _ Hw Hc) as [H|[[]|[w' [[] _]]]]. exact H.
Qed.

Lemma runs_In s : forall cur w c,
  (forall d, In d cur -> is_delim d = false) ->
  In w (runs s cur) -> In c w -> (In c s \/ In c cur) /\ is_delim c = false.
Proof.
  induction s as [|x s IH]; intros cur w c Hcur Hw Hc; simpl in Hw.
  - destruct cur as [|g cur']; [destruct Hw|]. destruct Hw as [<-|[]].
    apply in_rev in Hc. split; [now right | now apply Hcur].
  - destruct (is_delim x) eqn:Ex.
    + destruct cur as [|g cur'].
      * destruct (IH [] w c (fun d (H : In d []) => match H with end) Hw Hc) as [[H|[]] Hd]. split; [left; now right | exact Hd].
      * destruct Hw as [<-|Hw].
        -- apply in_rev in Hc. split; [now right | now apply Hcur].
        -- destruct (IH [] w c (fun d (H : In d []) => match H with end) Hw Hc) as [[H|[]] Hd]. split; [left; now right | exact Hd].
    + assert (Hcur': forall d, In d (x :: cur) -> is_delim d = false).
      { intros d [<-|Hd]; [exact Ex | now apply Hcur]. }
      destruct (IH (x :: cur) w c Hcur' Hw Hc) as [[H|[<-|H]] Hd].
      * split; [left; now right | exact Hd].
      * split; [left; now left | exact Hd].
      * split; [now right | exact Hd].
Qed.

Lemma split_words_In v w c : In w (split_words v) -> In c w -> In c v /\ is_delim c = false.
Proof.
  unfold split_words. intros Hw Hc.
  assert (Hnil: forall d, In d (@nil N) -> is_delim d = false) by (intros d []).
  destruct (existsb c_isupper v).
  - apply in_flat_map in Hw as [r [Hr Hw]].
    pose proof (case_split_In _ _ _ Hw Hc) as Hcr.
    destruct (runs_In _ _ _ _ Hnil Hr Hcr) as [[H|[]] Hd]. now split.
  - destruct (runs_In _ _ _ _ Hnil Hw Hc) as [[H|[]] Hd]. now split.
Qed.

Lemma join_In sep : forall ws c, In c (join sep ws) -> In c sep \/ exists w, In w ws /\ In c w.
Proof.
  induction ws as [|w ws IH]; intros c H; [destruct H|].
  destruct ws as [|w2 ws'].
  - simpl in H. right. exists w. split; [now left | exact H].
  - change (join sep (w :: w2 :: ws')) with (w ++ sep ++ join sep (w2 :: ws')) in H.
    apply in_app_or in H as [H|H]; [right; exists w; split; [now left | exact H]|].
    apply in_app_or in H as [H|H]; [now left|].
    destruct (IH _ H) as [Hs|[w' [Hw' Hc]]]; [now left|]. right. exists w'. split; [now right | exact Hc].
Qed.

(* A word character of a sanitized-and-split name *)
Lemma word_char_of_value value w c :
  In w (split_words (sanitize (sanitize value))) -> In c w -> In c value /\ is_word c = true.
Proof.
  intros Hw Hc. destruct (split_words_In _ _ _ Hw Hc) as [Hin Hd].
  apply sanitize_In in Hin as [Hin Hwd]. apply sanitize_In in Hin as [Hin _].
  split; [exact Hin|]. rewrite Hd, orb_false_r in Hwd. exact Hwd.
Qed.

(* ---------- table facts, re-established by computation on the regenerated tables ---------- *)
Lemma fact_regex_shapes : regex_shapes_known = true.
Proof. vm_compute. reflexivity. Qed.
Lemma fact_lower_xidc : map_preserves xid_continue xid_continue map_lower = true.
Proof. vm_compute. reflexivity. Qed.
Lemma fact_title_xidc : map_preserves xid_continue xid_continue map_title = true.
Proof. vm_compute. reflexivity. Qed.
Lemma fact_us_xidc : xid_continue 95 = true.
Proof. vm_compute. reflexivity. Qed.
Lemma fact_kw_suffix :
  forallb (fun k => negb (mem_str (k ++ [95]) keywords)) (keywords ++ reserved_words) = true.
Proof. vm_compute. reflexivity. Qed.
Lemma fact_field_prefix_good : good_prefix [102;105;101;108;100;95] = true.
Proof. vm_compute. reflexivity. Qed.
Lemma fact_tag_prefix_good : good_prefix [116;97;103] = true.
Proof. vm_compute. reflexivity. Qed.

Lemma lower_c_xidc c : xid_continue c = true -> forallb xid_continue (lower_c c) = true.
Proof. apply (map_preserves_sound xid_continue xid_continue map_lower fact_lower_xidc); auto. Qed.
Lemma title_c_xidc c : xid_continue c = true -> forallb xid_continue (title_c c) = true.
Proof. apply (map_preserves_sound xid_continue xid_continue map_title fact_title_xidc); auto. Qed.

Lemma lower_xidc s : forallb xid_continue s = true -> forallb xid_continue (lower s) = true.
Proof.
  unfold lower. induction s as [|c s IH]; simpl; [reflexivity|]. intro H.
  apply andb_true_iff in H as [H1 H2]. rewrite forallb_app, lower_c_xidc, IH; auto.
Qed.

Lemma g_xid_char value c : g_xid value = true -> In c value -> is_word c = true -> xid_continue c = true.
Proof.
  unfold g_xid. rewrite forallb_forall. intros H Hin Hw. specialize (H _ Hin). now rewrite Hw in H.
Qed.

Lemma joined_words_xidc value sep :
  g_xid value = true -> forallb xid_continue sep = true ->
  forallb xid_continue (join sep (split_words (sanitize (sanitize value)))) = true.
Proof.
  intros Hg Hsep. apply forallb_forall. intros c Hc.
  apply join_In in Hc as [Hc|[w [Hw Hc]]].
  - rewrite forallb_forall in Hsep. now apply Hsep.
  - destruct (word_char_of_value _ _ _ Hw Hc) as [Hin Hwd]. eapply g_xid_char; eauto.
Qed.

Lemma snake_xidc value : g_xid value = true -> forallb xid_continue (snake_case (sanitize value)) = true.
Proof.
  intro Hg. unfold snake_case. apply lower_xidc. apply joined_words_xidc; [exact Hg|].
  cbn [forallb]. now rewrite fact_us_xidc.
Qed.

Lemma fix_reserved_xidc s : forallb xid_continue s = true -> forallb xid_continue (fix_reserved s) = true.
Proof.
  intro H. unfold fix_reserved. destruct (_ || _); [|exact H].
  rewrite forallb_app, H. cbn [forallb]. now rewrite fact_us_xidc.
Qed.

Lemma fix_reserved_not_keyword s : mem_str (fix_reserved s) keywords = false.
Proof.
  unfold fix_reserved. destruct (mem_str s reserved_words || mem_str s keywords) eqn:E.
  - pose proof fact_kw_suffix as F. rewrite forallb_forall in F.
    assert (Hin: In s (keywords ++ reserved_words)).
    { apply orb_true_iff in E as [E|E]; apply mem_str_In in E; apply in_or_app; [now right | now left]. }
    specialize (F _ Hin). now apply negb_true_iff in F.
  - now apply orb_false_iff in E as [_ E].
Qed.

Lemma prefixed_not_keyword p x : good_prefix p = true -> mem_str (p ++ x) keywords = false.
Proof.
  unfold good_prefix. intro H. apply andb_true_iff in H as [_ H]. apply negb_true_iff in H.
  destruct (mem_str (p ++ x) keywords) eqn:E; [|reflexivity].
  apply mem_str_In in E. assert (existsb (is_prefix p) keywords = true).
  { apply existsb_exists. exists (p ++ x). split; [exact E | apply is_prefix_app]. }
  congruence.
Qed.

Lemma prefixed_identifier p x :
  good_prefix p = true -> forallb xid_continue x = true -> is_identifier (p ++ x) = true.
Proof.
  unfold good_prefix. intros H Hx. apply andb_true_iff in H as [H _].
  destruct p as [|c p]; [discriminate|]. simpl in *.
  apply andb_true_iff in H as [H1 H2]. now rewrite H1, forallb_app, H2, Hx.
Qed.

(* ---------- C09: PythonIdentifier ---------- *)
Theorem python_identifier_valid value prefix :
  good_prefix prefix = true -> g_xid value = true ->
  is_identifier (python_identifier value prefix false) = true /\
  mem_str (python_identifier value prefix false) keywords = false.
Proof.
  intros Hp Hg. unfold python_identifier.
  set (v3 := fix_reserved (snake_case (sanitize value))).
  assert (Hx: forallb xid_continue v3 = true) by (apply fix_reserved_xidc, snake_xidc, Hg).
  destruct (negb (is_identifier v3) || starts_us value) eqn:E.
  - split; [now apply prefixed_identifier | now apply prefixed_not_keyword].
  - apply orb_false_iff in E as [E _]. apply negb_false_iff in E. split; [exact E|].
    apply fix_reserved_not_keyword.
Qed.

(* the guard is necessary: witness "a²" (U+00B2 is \w but not XID_Continue) *)
Theorem python_identifier_refuted :
  exists value, g_xid value = false /\
    is_identifier (python_identifier value [102;105;101;108;100;95] false) = false.
Proof. exists [97; 178]. vm_compute. split; reflexivity. Qed.

(* without snake-casing (the raw-name fallback) delimiters survive: witness "a-b" *)
Theorem raw_fallback_refuted :
  exists value, g_xid value = true /\
    is_identifier (python_identifier value [102;105;101;108;100;95] true) = false.
Proof. exists [97; 45; 98]. vm_compute. split; reflexivity. Qed.

Example python_identifier_valid_nonvacuous :
  good_prefix [102;105;101;108;100;95] = true /\ g_xid [72;101;108;108;111;32;87;246;114;108;100;45;49] = true.
Proof. vm_compute. split; reflexivity. Qed.

(* ---------- path-component safety of derived names (C19 writes_confined, C05 identifier slots) ---------- *)
Definition path_char (x : N) : bool := negb (memN x [0; 34; 39; 46; 47; 92; 10; 13]).

Lemma fact_word_path : forallb (fun x => negb (is_word x)) [0; 34; 39; 46; 47; 92; 10; 13] = true.
Proof. vm_compute. reflexivity. Qed.
Lemma fact_lower_path : map_preserves is_word path_char map_lower = true.
Proof. vm_compute. reflexivity. Qed.
Lemma fact_us_path : path_char 95 = true /\ path_char 45 = true.
Proof. vm_compute. split; reflexivity. Qed.

Lemma word_path_char c : is_word c = true -> path_char c = true.
Proof.
  intro Hw. unfold path_char. apply negb_true_iff. destruct (memN c _) eqn:E; [|reflexivity].
  apply memN_In in E. pose proof fact_word_path as F. rewrite forallb_forall in F.
  specialize (F _ E). rewrite Hw in F. discriminate.
Qed.

Lemma lower_c_path c : is_word c = true -> forallb path_char (lower_c c) = true.
Proof. apply (map_preserves_sound is_word path_char map_lower fact_lower_path). exact word_path_char. Qed.

Lemma cased_words_path value sep :
  forallb path_char sep = true -> (forall c, In c sep -> lower_c c = [c]) ->
  forallb path_char (lower (join sep (split_words (sanitize value)))) = true.
Proof.
  intros Hsep Hfix. unfold lower. apply forallb_forall. intros d Hd.
  apply in_flat_map in Hd as [c [Hc Hd]].
  apply join_In in Hc as [Hc|[w [Hw Hc]]].
  - rewrite (Hfix _ Hc) in Hd. destruct Hd as [<-|[]].
    rewrite forallb_forall in Hsep. now apply Hsep.
  - assert (Hwd: is_word c = true).
    { destruct (split_words_In _ _ _ Hw Hc) as [Hin Hnd].
      apply sanitize_In in Hin as [_ Hwd]. now rewrite Hnd, orb_false_r in Hwd. }
    pose proof (lower_c_path c Hwd) as Hl. rewrite forallb_forall in Hl. now apply Hl.
Qed.

Lemma fact_seps_fixed : lower_c 95 = [95] /\ lower_c 45 = [45].
Proof. vm_compute. split; reflexivity. Qed.

Lemma fix_reserved_path s : forallb path_char s = true -> forallb path_char (fix_reserved s) = true.
Proof.
  intro H. unfold fix_reserved. destruct (_ || _); [|exact H].
  rewrite forallb_app, H. cbn [forallb]. destruct fact_us_path as [-> _]. reflexivity.
Qed.

Theorem python_identifier_path_chars value prefix :
  forallb path_char prefix = true ->
  forallb path_char (python_identifier value prefix false) = true.
Proof.
  intro Hp. unfold python_identifier.
  assert (Hx: forallb path_char (fix_reserved (snake_case (sanitize value))) = true).
  { apply fix_reserved_path. unfold snake_case. apply cased_words_path.
    - cbn [forallb]. destruct fact_us_path as [-> _]. reflexivity.
    - intros c [<-|[]]. apply fact_seps_fixed. }
  destruct (_ || _); [|exact Hx]. now rewrite forallb_app, Hp, Hx.
Qed.

Theorem kebab_case_path_chars value : forallb path_char (kebab_case value) = true.
Proof.
  unfold kebab_case. apply cased_words_path.
  - cbn [forallb]. destruct fact_us_path as [_ ->]. reflexivity.
  - intros c [<-|[]]. apply fact_seps_fixed.
Qed.

Theorem python_identifier_nonempty value prefix :
  good_prefix prefix = true -> python_identifier value prefix false <> [].
Proof.
  intro Hg. unfold python_identifier.
  assert (Hpne: prefix <> []).
  { unfold good_prefix in Hg. apply andb_true_iff in Hg as [Hg _]. destruct prefix; [discriminate | discriminate]. }
  destruct (negb (is_identifier _) || starts_us value) eqn:E.
  - intro H. apply app_eq_nil in H as [H _]. contradiction.
  - apply orb_false_iff in E as [E _]. apply negb_false_iff in E. intro H. rewrite H in E. discriminate.
Qed.
