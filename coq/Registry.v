(* Registry.v -- model of how operations (re-)register a class in Schemas.classes_by_name while the paths are parsed (C12, order part).
   Model file: definitions only.

   parser/bodies.py body_from_data: a component model used as a request body is looked up in the registry; for a
   multipart/form-data body the code stores a COPY with is_multipart_body=True back under the class name ("sticky": the flag is
   only ever raised).  The alternative "every use stores its own copy" (last registration wins) is what an order-dependent
   generator would do; both are modelled so that the difference is a theorem. *)
From Coq Require Import NArith List Bool.
Import ListNotations.
Require Import OPC.Uni.
Open Scope N_scope.

(* one use of class `u_cls` as a request body; u_files = the media type is multipart/form-data *)
Record body_use := { u_cls : N; u_files : bool }.
Definition registry := list (N * bool).          (* class -> is_multipart_body *)
Fixpoint reg_get (r : registry) (c : N) : bool :=
  match r with [] => false | (k, v) :: r' => if k =? c then v else reg_get r' c end.
Definition reg_set (r : registry) (c : N) (v : bool) : registry := (c, v) :: r.

(* the code as it is: only a multipart use writes, and it writes True *)
Definition sticky_step (r : registry) (u : body_use) : registry := if u_files u then reg_set r (u_cls u) true else r.
Definition sticky_final (uses : list body_use) : registry := fold_left sticky_step uses [].
(* every use writes its own flag *)
Definition overwrite_step (r : registry) (u : body_use) : registry := reg_set r (u_cls u) (u_files u).
Definition overwrite_final (uses : list body_use) : registry := fold_left overwrite_step uses [].
(* all uses of one class agree on the flag *)
Definition uses_consistent (uses : list body_use) : bool :=
  forallb (fun u => forallb (fun v => negb (u_cls u =? u_cls v) || Bool.eqb (u_files u) (u_files v)) uses) uses.

(* ------------------------------------------------------------------ regenerated table of registration sites *)
Inductive reg_kind :=
| RFresh      (* preceded by `if name in schemas.classes_by_name: return error` : first registration only *)
| RCompat     (* preceded by a compatibility check that rejects a different class of that name (enums with equal values) *)
| RSticky     (* stores evolve(found, flag=<constant>, ...) : idempotent, independent of the other uses *)
| ROverwrite. (* anything else: last registration wins *)
Record reg_site := { rs_file : str; rs_line : N; rs_kind : reg_kind }.
Definition reg_ok (s : reg_site) : bool := match rs_kind s with ROverwrite => false | _ => true end.
