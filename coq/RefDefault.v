(* RefDefault.v — the default declared NEXT TO a reference (parser/properties/__init__.py:_property_from_ref, reached for a bare
   $ref and for an allOf/oneOf/anyOf wrapper around a single $ref). Model file.
   prop = evolve(existing, required=required, name=name, python_name=..., default=existing.convert_value(parent.default))
   where a bare reference has no parent (default None = JNull here). The referenced property's own default is NOT inherited. *)
From Coq Require Import NArith ZArith List Bool.
Import ListNotations.
Require Import OPC.Uni OPC.Values.
Open Scope N_scope.

Record rprop := { r_kind : ckind; r_required : bool; r_name : str; r_default : option value }.
Inductive rres := ROk (p : rprop) | RErr | RCrash.

Definition property_from_ref (o : oracles) (existing : rprop) (name : str) (required : bool) (parent_default : jval) : rres :=
  match convert_value o (r_kind existing) parent_default with
  | Ok d => ROk {| r_kind := r_kind existing; r_required := required; r_name := name; r_default := d |}
  | Err => RErr
  | Crash => RCrash
  end.

(* EnumProperty.build / LiteralEnumProperty.build on a value list that contains null (enum_property.py:103-118,
   literal_enum_property.py:102-117): the schema is rewritten into oneOf [null, copy of the enum WITHOUT null carrying the SAME default]
   and handed to UnionProperty.build, which first builds the members (the inner enum validates the default with its own
   convert_value; an error there fails the whole property) and then converts the OUTER schema's default with the union.
   inner = the CEnum / CLitEnum kind of the null-free copy. *)
Definition nullable_enum_default (o : oracles) (inner : ckind) (pd : jval) : result :=
  match convert_value o inner pd with
  | Err => Err
  | Crash => Crash
  | Ok _ => convert_value o (CUnion [CNone; inner]) pd
  end.
