(* FrameCodec.v - property C16, literal_enums: the two enum representations have the same wire behaviour (on Codec.v's
   step semantics of the generated from_dict / to_dict; proofs). *)
Require Import OPC.gen.GenKinds OPC.Uni OPC.Names OPC.Codec OPC.CodecThm.
From Coq Require Import NArith ZArith List Bool. Import ListNotations.

Definition bind {A B} (o : option A) (f : A -> option B) : option B := match o with Some x => f x | None => None end.

(* regenerated facts (GenKinds): both enum templates define construct; what transform they define does not matter below *)
Lemma fact_enum_construct cls vt vals : has_construct (KEnum cls vt vals) = true.
Proof. reflexivity. Qed.
Lemma fact_litenum_construct vt vals : has_construct (KLitEnum vt vals) = true.
Proof. reflexivity. Qed.
Lemma fact_enum_transform cls vt vals : has_transform (KEnum cls vt vals) = true.
Proof. reflexivity. Qed.

Lemma find_typed vt vals j : forallb (vty_of_json vt) vals = true -> vty_of_json vt j = true ->
  find (py_scalar_eqb j) vals = if existsb (py_scalar_eqb j) vals then Some j else None.
Proof.
  intros Hv Hj. induction vals as [|x vals IH]; [reflexivity|].
  cbn [forallb] in Hv. apply andb_true_iff in Hv. destruct Hv as [Hx Hv].
  cbn [find existsb]. destruct (py_scalar_eqb j x) eqn:E.
  - cbn [orb]. f_equal. exact (py_eq_typed vt x j Hx Hj E).
  - cbn [orb]. apply IH. exact Hv.
Qed.

(* decode then encode: for every class table, every decoder/encoder one level down, every declared value list of the enum's
   type and every JSON value of that type, the Enum class and the Literal alias accept the same values and put the same JSON
   back on the wire (the value itself) *)
Theorem literal_enum_same_wire : forall orc T d e cls vt vals j,
  forallb (vty_of_json vt) vals = true -> vty_of_json vt j = true ->
  bind (dec_step orc T d (KEnum cls vt vals) j) (enc_step T e (KEnum cls vt vals)) =
  bind (dec_step orc T d (KLitEnum vt vals) j) (enc_step T e (KLitEnum vt vals)) /\
  bind (dec_step orc T d (KLitEnum vt vals) j) (enc_step T e (KLitEnum vt vals)) =
    if existsb (py_scalar_eqb j) vals then Some j else None.
Proof.
  intros orc T d e cls vt vals j Hv Hj.
  unfold dec_step. rewrite fact_enum_construct, fact_litenum_construct. cbn [negb].
  rewrite (find_typed vt vals j Hv Hj).
  destruct (existsb (py_scalar_eqb j) vals); cbn [bind].
  - unfold enc_step. rewrite fact_enum_transform. cbn [negb].
    destruct (has_transform (KLitEnum vt vals)); cbn [negb]; split; reflexivity.
  - split; reflexivity.
Qed.

(* outside the typed guard the two differ (finding numeric_alias of C14: Python == identifies True with 1): the Enum re-emits the
   member's value, the Literal alias the received value *)
Theorem literal_enum_same_wire_refuted : exists orc T d e cls vt vals j,
  forallb (vty_of_json vt) vals = true /\ vty_of_json vt j = false /\
  bind (dec_step orc T d (KEnum cls vt vals) j) (enc_step T e (KEnum cls vt vals)) <>
  bind (dec_step orc T d (KLitEnum vt vals) j) (enc_step T e (KLitEnum vt vals)).
Proof.
  exists {| parse_date := fun _ => None; parse_datetime := fun _ => None; parse_uuid := fun _ => None |}, [], (fun _ _ => None), (fun _ _ => None), 0%N, VTInt, [JInt (1)%Z], (JBool true).
  vm_compute. repeat split; discriminate.
Qed.

(* ---- which operations exist: PropertyProtocol.validate_location (parser/properties/protocol.py:70-76) over the regenerated
   per-class facts of GenKinds (_allowed_locations of each property class). A parameter that fails it drops its whole operation
   with a warning, so the set of generated operations depends on these facts. *)
Inductive ploc := LQuery | LPath | LHeader | LCookie.
Definition loc_allowed (k : pk) (l : ploc) : bool :=
  let f := kfacts_of k in
  match l with LQuery => kf_loc_query f | LPath => kf_loc_path f | LHeader => kf_loc_header f | LCookie => kf_loc_cookie f end.
Definition validate_location (k : pk) (l : ploc) (required : bool) : bool :=
  loc_allowed k l && match l with LPath => required | _ => true end.
(* the template macros that decide how a value of the kind is put on the wire in each position *)
Definition wire_macros (k : pk) : list bool :=
  let f := kfacts_of k in [kf_construct f; kf_transform f; kf_check f; kf_header f; kf_multipart f; kf_multipart_body f; kf_json_is_dict f].

(* literal_enums does not change the set of generated operations: an enum parameter is accepted in exactly the same locations,
   required or not, whichever of the two property classes represents it (reflection on the regenerated class facts) *)
Theorem literal_enum_same_operations : forall cls vt vals l req,
  validate_location (KEnum cls vt vals) l req = validate_location (KLitEnum vt vals) l req.
Proof. intros cls vt vals l req. destruct l; reflexivity. Qed.

(* ... and both classes define the same set of wire macros (construct / transform / check_type / transform_header / multipart) *)
Theorem literal_enum_same_macros : forall cls vt vals, wire_macros (KEnum cls vt vals) = wire_macros (KLitEnum vt vals).
Proof. intros. reflexivity. Qed.

(* non-vacuity: enum parameters are allowed in all four locations (a path parameter only when required) *)
Example enum_locations : forall cls vt vals,
  validate_location (KEnum cls vt vals) LQuery false = true /\ validate_location (KEnum cls vt vals) LHeader false = true /\
  validate_location (KEnum cls vt vals) LCookie false = true /\ validate_location (KEnum cls vt vals) LPath true = true /\
  validate_location (KEnum cls vt vals) LPath false = false.
Proof. intros. repeat split; reflexivity. Qed.
