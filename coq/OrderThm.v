(* OrderThm.v -- proofs about Order.v (C12): the string order is a total order, a sorted emission does not depend on the
   enumeration order of the set, an unsorted one does, and the facts about the regenerated loop table. *)
From Coq Require Import NArith List Bool Lia ZifyBool Permutation Sorted.
Import ListNotations.
Require Import OPC.Uni OPC.NamesThm OPC.Order OPC.Registry OPC.gen.GenLoops OPC.gen.GenImports.
Open Scope N_scope.

(* ------------------------------------------------------------------ str_leb is a total order *)
Lemma str_leb_refl a : str_leb a a = true.
Proof.
  induction a as [|x a IH]; cbn [str_leb]; [reflexivity|].
  destruct (N.ltb_spec x x) as [H|H]; [lia|]. now rewrite N.eqb_refl.
Qed.

Lemma str_leb_total a : forall b, str_leb a b = true \/ str_leb b a = true.
Proof.
  induction a as [|x a IH]; intros [|y b]; cbn [str_leb]; auto.
  destruct (N.ltb_spec x y) as [H1|H1]; [now left|].
  destruct (N.ltb_spec y x) as [H2|H2]; [now right|].
  assert (x = y) by lia. subst y. rewrite N.eqb_refl. apply IH.
Qed.

Lemma str_leb_antisym a : forall b, str_leb a b = true -> str_leb b a = true -> a = b.
Proof.
  induction a as [|x a IH]; intros [|y b]; cbn [str_leb]; intros H1 H2; try reflexivity; try discriminate.
  destruct (N.ltb_spec x y) as [L1|L1]; destruct (N.ltb_spec y x) as [L2|L2]; try lia.
  - destruct (N.eqb_spec y x) as [E|E]; [lia|discriminate].
  - destruct (N.eqb_spec x y) as [E|E]; [lia|discriminate].
  - destruct (N.eqb_spec x y) as [E|E]; [|discriminate]. subst y. rewrite N.eqb_refl in H2.
    f_equal. now apply IH.
Qed.

Lemma str_leb_trans a : forall b c, str_leb a b = true -> str_leb b c = true -> str_leb a c = true.
Proof.
  induction a as [|x a IH]; intros [|y b] [|z c]; cbn [str_leb]; intros H1 H2; try reflexivity; try discriminate.
  destruct (N.ltb_spec x y) as [L1|L1]; destruct (N.ltb_spec y z) as [L2|L2]; destruct (N.ltb_spec x z) as [L3|L3]; try reflexivity; try lia.
  - destruct (N.eqb_spec y z) as [E|E]; [lia|discriminate].
  - destruct (N.eqb_spec x y) as [E|E]; [lia|discriminate].
  - destruct (N.eqb_spec x y) as [E1|E1]; [|discriminate]. destruct (N.eqb_spec y z) as [E2|E2]; [|discriminate].
    subst. rewrite N.eqb_refl. eapply IH; eassumption.
Qed.

(* ------------------------------------------------------------------ the sort *)
Section KS.
  Context {A : Type} (key : A -> str).
  Let R (a b : A) : Prop := kle key a b = true.

  Lemma kle_total a b : R a b \/ R b a.
  Proof. unfold R, kle. apply str_leb_total. Qed.
  Lemma kle_trans a b c : R a b -> R b c -> R a c.
  Proof. unfold R, kle. apply str_leb_trans. Qed.

  Lemma kinsert_perm x l : Permutation (x :: l) (kinsert key x l).
  Proof.
    induction l as [|y l IH]; cbn [kinsert]; [reflexivity|].
    destruct (kle key x y); [reflexivity|].
    eapply perm_trans; [apply perm_swap|]. now apply perm_skip.
  Qed.

  Lemma ksort_perm l : Permutation l (ksort key l).
  Proof.
    induction l as [|x l IH]; cbn [ksort]; [reflexivity|].
    eapply perm_trans; [apply perm_skip, IH|]. apply kinsert_perm.
  Qed.

  Lemma kinsert_sorted x l : StronglySorted R l -> StronglySorted R (kinsert key x l).
  Proof.
    induction l as [|y l IH]; intro Hs; cbn [kinsert].
    - constructor; constructor.
    - destruct (kle key x y) eqn:E.
      + constructor; [exact Hs|]. constructor; [exact E|].
        apply StronglySorted_inv in Hs. destruct Hs as [_ Hf].
        eapply Forall_impl; [|exact Hf]. intros z Hz. eapply kle_trans; [exact E|exact Hz].
      + apply StronglySorted_inv in Hs. destruct Hs as [Hs Hf].
        constructor; [now apply IH|].
        assert (Hyx : R y x) by (destruct (kle_total x y) as [H|H]; [unfold R in H; congruence|exact H]).
        eapply Permutation_Forall; [apply kinsert_perm|]. constructor; assumption.
  Qed.

  Lemma ksort_sorted l : StronglySorted R (ksort key l).
  Proof. induction l as [|x l IH]; cbn [ksort]; [constructor|now apply kinsert_sorted]. Qed.

  Lemma keys_distinct_inj l : keys_distinct key l = true -> forall x y, In x l -> In y l -> key x = key y -> x = y.
  Proof.
    induction l as [|a l IH]; intros Hd x y Hx Hy Hk; [destruct Hx|].
    cbn [keys_distinct] in Hd. apply andb_true_iff in Hd. destruct Hd as [Hn Hd]. apply negb_true_iff in Hn.
    assert (Hnot : forall z, In z l -> key a = key z -> False).
    { intros z Hz Hkz. assert (existsb (fun y0 => str_eqb (key a) (key y0)) l = true); [|congruence].
      apply existsb_exists. exists z. split; [exact Hz|]. now apply str_eqb_eq. }
    destruct Hx as [Hx|Hx]; destruct Hy as [Hy|Hy]; subst.
    - reflexivity.
    - exfalso. eapply Hnot; eassumption.
    - exfalso. eapply Hnot; [exact Hx|]. now symmetry.
    - now apply IH.
  Qed.
End KS.

(* two sorted lists with the same elements are equal, when the order is antisymmetric on those elements *)
Lemma sorted_perm_eq {A} (R : A -> A -> Prop) : forall l l',
  StronglySorted R l -> StronglySorted R l' -> Permutation l l' ->
  (forall x y, In x l -> In y l -> R x y -> R y x -> x = y) -> l = l'.
Proof.
  induction l as [|a l IH]; intros l' Hs Hs' Hp Hanti.
  - apply Permutation_nil in Hp. now subst.
  - destruct l' as [|b l']; [apply Permutation_sym, Permutation_nil in Hp; discriminate|].
    apply StronglySorted_inv in Hs. destruct Hs as [Hs Hf].
    apply StronglySorted_inv in Hs'. destruct Hs' as [Hs' Hf'].
    assert (Hab : a = b).
    { assert (Ha : In a (b :: l')) by (eapply Permutation_in; [exact Hp|now left]).
      assert (Hb : In b (a :: l)) by (eapply Permutation_in; [apply Permutation_sym; exact Hp|now left]).
      destruct Ha as [Ha|Ha]; [now symmetry|]. destruct Hb as [Hb|Hb]; [exact Hb|].
      rewrite Forall_forall in Hf, Hf'.
      apply Hanti; [now left|now right|now apply Hf|now apply Hf']. }
    subst b. f_equal. apply IH; try assumption.
    + eapply Permutation_cons_inv; exact Hp.
    + intros x y Hx Hy. apply Hanti; now right.
Qed.

Theorem ksort_perm_invariant {A} (key : A -> str) : forall l l',
  Permutation l l' -> keys_distinct key l = true -> ksort key l = ksort key l'.
Proof.
  intros l l' Hp Hd.
  apply (sorted_perm_eq (fun a b => kle key a b = true)).
  - apply ksort_sorted.
  - apply ksort_sorted.
  - eapply perm_trans; [apply Permutation_sym, ksort_perm|]. eapply perm_trans; [exact Hp|apply ksort_perm].
  - intros x y Hx Hy H1 H2.
    apply (keys_distinct_inj key l Hd).
    + eapply Permutation_in; [apply Permutation_sym, ksort_perm|exact Hx].
    + eapply Permutation_in; [apply Permutation_sym, ksort_perm|exact Hy].
    + unfold kle in H1, H2. now apply str_leb_antisym.
Qed.

(* sorted(S) in Python: no guard at all, the code point order is antisymmetric on strings *)
Theorem py_sorted_perm_invariant : forall l l', Permutation l l' -> py_sorted l = py_sorted l'.
Proof.
  intros l l' Hp. unfold py_sorted.
  apply (sorted_perm_eq (fun a b => kle (fun s : str => s) a b = true)).
  - apply ksort_sorted.
  - apply ksort_sorted.
  - eapply perm_trans; [apply Permutation_sym, ksort_perm|]. eapply perm_trans; [exact Hp|apply ksort_perm].
  - intros x y _ _ H1 H2. unfold kle in H1, H2. now apply str_leb_antisym.
Qed.

(* a key that is injective on a pool is injective on every duplicate-free list drawn from the pool *)
Lemma keys_distinct_sub {A} (key : A -> str) (pool : list A) : keys_distinct key pool = true ->
  forall l, NoDup l -> (forall x, In x l -> In x pool) -> keys_distinct key l = true.
Proof.
  intros Hp. induction l as [|a l IH]; intros Hn Hin; [reflexivity|].
  inversion Hn as [|? ? Hna Hnl]; subst. cbn [keys_distinct]. apply andb_true_iff. split.
  - apply negb_true_iff. destruct (existsb (fun y => str_eqb (key a) (key y)) l) eqn:E; [|reflexivity].
    apply existsb_exists in E. destruct E as [y [Hy He]]. apply str_eqb_eq in He.
    assert (a = y) by (apply (keys_distinct_inj key pool Hp); [apply Hin; now left|apply Hin; now right|exact He]).
    subst y. contradiction.
  - apply IH; [exact Hnl|]. intros x Hx. apply Hin. now right.
Qed.

(* the Jinja filter: same, provided no two elements differ only in case *)
Theorem jinja_sort_perm_invariant : forall l l', Permutation l l' -> keys_distinct lower l = true -> jinja_sort l = jinja_sort l'.
Proof. intros l l'. apply ksort_perm_invariant. Qed.

Theorem jinja_sort_is_permutation : forall l, Permutation l (jinja_sort l).
Proof. intro l. apply ksort_perm. Qed.

(* ... and the guard is needed: a set holding two strings that differ only in case is emitted in enumeration order *)
Theorem jinja_sort_case_tie_refuted : exists l l', Permutation l l' /\ NoDup l /\ jinja_sort l <> jinja_sort l'.
Proof.
  exists [[65; 66]; [65; 98]], [[65; 98]; [65; 66]]. split; [apply perm_swap|]. split.
  - constructor; [|constructor; [intros []|constructor]]. intros [H|[]]. discriminate.
  - vm_compute. discriminate.
Qed.

(* ------------------------------------------------------------------ emission *)
Definition all_sorted (sites : list bool) : bool := forallb (fun b => b) sites.
Definition case_distinct (e : list (list str)) : Prop := Forall (fun l => keys_distinct lower l = true) e.

Theorem sorted_emission_deterministic : forall sites e e',
  all_sorted sites = true -> Forall2 (@Permutation str) e e' -> case_distinct e ->
  render sites e = render sites e'.
Proof.
  induction sites as [|s sites IH]; intros e e' Hs Hp Hd; [reflexivity|].
  cbn [all_sorted forallb] in Hs. apply andb_true_iff in Hs. destruct Hs as [Hs1 Hs]. subst s.
  destruct Hp as [|l l' e e' Hl Hp]; [reflexivity|].
  inversion Hd as [|? ? Hd1 Hd2]; subst.
  cbn [render emit]. f_equal; [now apply jinja_sort_perm_invariant|now apply IH].
Qed.

Theorem unsorted_refuted : forall sites, all_sorted sites = false ->
  exists e e', Forall2 (@Permutation str) e e' /\ case_distinct e /\ render sites e <> render sites e'.
Proof.
  induction sites as [|s sites IH]; intro Hs; [discriminate|].
  destruct s.
  - cbn [all_sorted forallb andb] in Hs. destruct (IH Hs) as [e [e' [Hp [Hd Hne]]]].
    exists ([] :: e), ([] :: e'). split; [constructor; [constructor|exact Hp]|]. split; [constructor; [reflexivity|exact Hd]|].
    cbn [render]. intro H. apply Hne. now inversion H.
  - exists [[[97]; [98]]], [[[98]; [97]]]. split; [constructor; [apply perm_swap|constructor]|].
    split; [constructor; [vm_compute; reflexivity|constructor]|].
    cbn [render emit]. destruct sites; discriminate.
Qed.

(* ------------------------------------------------------------------ the regenerated table *)
Lemma ok_or_known_fixed tbl : forallb loop_ok_or_known tbl = true -> known_fixed tbl = true -> forallb loop_ok tbl = true.
Proof.
  unfold known_fixed. induction tbl as [|s tbl IH]; intros H1 H2; [reflexivity|].
  cbn [forallb existsb] in *. apply andb_true_iff in H1. destruct H1 as [Ha Hb].
  apply negb_true_iff, orb_false_iff in H2. destruct H2 as [Hc Hd].
  unfold loop_ok_or_known in Ha. rewrite Hc, orb_false_r in Ha. rewrite Ha. cbn [andb].
  apply IH; [exact Hb|]. now rewrite Hd.
Qed.

Lemma loop_ok_output_sorted tbl : forallb loop_ok tbl = true -> all_sorted (output_sites tbl) = true.
Proof.
  unfold output_sites, all_sorted. induction tbl as [|s tbl IH]; intro H; [reflexivity|].
  cbn [forallb] in H. apply andb_true_iff in H. destruct H as [Ha Hb].
  cbn [filter]. destruct (is_output (ls_effect s)) eqn:E; [|now apply IH].
  cbn [map forallb]. unfold loop_ok in Ha. rewrite E in Ha. cbn [negb] in Ha. rewrite andb_false_r, orb_false_r in Ha.
  rewrite Ha. cbn [andb]. now apply IH.
Qed.

Lemma known_unsorted_props s : known_unsorted s = true -> is_output (ls_effect s) = true /\ ls_sorted s = false.
Proof.
  unfold known_unsorted, known_lazy_unsorted, is_lazy_site, known_int_enum_unsorted, is_int_enum_site. intro H.
  apply orb_true_iff in H. destruct H as [H|H];
    repeat (apply andb_true_iff in H; destruct H as [H ?]);
    (split; [assumption|now apply negb_true_iff]).
Qed.

Lemma known_unsorted_output tbl : existsb known_unsorted tbl = true -> all_sorted (output_sites tbl) = false.
Proof.
  unfold output_sites, all_sorted. induction tbl as [|s tbl IH]; intro H; [discriminate|].
  cbn [existsb] in H. cbn [filter].
  destruct (known_unsorted s) eqn:E.
  - destruct (known_unsorted_props s E) as [Ho Hs]. rewrite Ho. cbn [map forallb]. rewrite Hs. reflexivity.
  - cbn [orb] in H. destruct (is_output (ls_effect s)); [|now apply IH].
    cbn [map forallb]. rewrite (IH H). apply andb_false_r.
Qed.

(* stage A obligation: every place where the generator orders an unordered collection either sorts, or cannot reach the
   generated files, or is a listed known finding (lazy_imports loops of model.py.jinja: lazy_unsorted; int_enum.py.jinja: int_enum_twin_order) *)
Theorem all_loops_sorted_except_known : forallb loop_ok_or_known gen_loops = true.
Proof. vm_compute. reflexivity. Qed.

(* stage A obligation: no place re-binds a class name in Schemas.classes_by_name in a last-registration-wins manner *)
Theorem registrations_safe : forallb reg_ok gen_registrations = true.
Proof. vm_compute. reflexivity. Qed.

(* stage A obligation: the recursive-allOf test of _process_models is on the whole last path segment (RetryThm.rec_exact_order_independent
   is about that test; RetryThm.rec_sloppy_refuted shows what a suffix test does) *)
Theorem recursion_test_is_exact : gen_recursion_test_exact = true.
Proof. vm_compute. reflexivity. Qed.

(* stage A obligation: the registries of Schemas are only ever extended through copies, so a failed attempt of the fix-point loops cannot leave
   a registration behind (RetryThm.failed_attempt_no_trace is the model's side of this) *)
Theorem registries_are_persistent : gen_registries_persistent = true.
Proof. vm_compute. reflexivity. Qed.

(* stage A obligation: the sort key of Jinja's `| sort` (str.lower) is injective on the pool of fixed import lines that the property classes can
   contribute (regenerated by probing every property class, required and optional, through the real parser): no two distinct lines tie *)
Theorem import_pool_keys_distinct : keys_distinct lower gen_import_pool = true.
Proof. vm_compute. reflexivity. Qed.

Theorem import_probe_complete : gen_import_probe_complete = true.
Proof. vm_compute. reflexivity. Qed.

(* hence any import set made of pool lines is emitted in one order, whatever order the set enumerates them in *)
Theorem pool_imports_sorted_invariant : forall l l', NoDup l -> (forall x, In x l -> In x gen_import_pool) ->
  Permutation l l' -> jinja_sort l = jinja_sort l'.
Proof.
  intros l l' Hn Hin Hp. apply jinja_sort_perm_invariant; [exact Hp|].
  apply (keys_distinct_sub lower gen_import_pool import_pool_keys_distinct); assumption.
Qed.

(* stage A obligation: _create_schemas retries every failed component (Retry.round queues every node that is not ready; finality is decided by
   a round without progress only) *)
Theorem create_retry_is_unconditional : gen_create_retry_unconditional = true.
Proof. vm_compute. reflexivity. Qed.

Theorem all_loops_sorted_if_fixed : known_fixed gen_loops = true -> forallb loop_ok gen_loops = true.
Proof. apply ok_or_known_fixed. exact all_loops_sorted_except_known. Qed.

(* the verdict for the tree as it is: with the lazy loops sorted the emission of every output site is independent of the
   sets' enumeration orders (for case-distinct sets); otherwise two enumerations with different output exist *)
Theorem rendering_verdict :
  if known_fixed gen_loops
  then forall e e', Forall2 (@Permutation str) e e' -> case_distinct e -> render (output_sites gen_loops) e = render (output_sites gen_loops) e'
  else exists e e', Forall2 (@Permutation str) e e' /\ case_distinct e /\ render (output_sites gen_loops) e <> render (output_sites gen_loops) e'.
Proof.
  destruct (known_fixed gen_loops) eqn:E.
  - intros e e' Hp Hd. apply sorted_emission_deterministic; [|exact Hp|exact Hd].
    apply loop_ok_output_sorted. apply all_loops_sorted_if_fixed. exact E.
  - apply unsorted_refuted. apply known_unsorted_output. unfold known_fixed in E. now apply negb_false_iff in E.
Qed.

(* non-vacuity: a realistic import set satisfies the guard and is emitted in one order whatever the enumeration *)
Example guard_satisfiable :
  let a := [102; 114; 111; 109; 32; 46; 46; 109; 111; 100; 101; 108; 115; 46; 97; 32; 105; 109; 112; 111; 114; 116; 32; 65] in
  let b := [102; 114; 111; 109; 32; 116; 121; 112; 105; 110; 103; 32; 105; 109; 112; 111; 114; 116; 32; 85; 110; 105; 111; 110] in
  let c := [105; 109; 112; 111; 114; 116; 32; 100; 97; 116; 101; 116; 105; 109; 101] in
  keys_distinct lower [a; b; c] = true /\ jinja_sort [c; a; b] = [a; b; c] /\ jinja_sort [b; c; a] = [a; b; c].
Proof. vm_compute. repeat split. Qed.
