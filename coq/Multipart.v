(* Multipart.v — model of the generated to_multipart method (templates/model.py.jinja _to_dict(multipart=True) and the
   transform_multipart macros of templates/property_templates/*.jinja): the dict handed to httpx as files=.
   Model file: definitions only. Values: a form part is (file name None, content bytes, content type) for text and JSON parts,
   bare bytes for dates, a bare str for uuids (as the templates do), a file tuple for File. *)
From Coq Require Import NArith ZArith List Bool.
Import ListNotations.
Require Import OPC.gen.GenKinds OPC.Uni OPC.Names OPC.Codec OPC.Endpoint.
Open Scope N_scope.

Inductive mpart :=
| MText (s : str)        (* (None, str(x).encode(), "text/plain") *)
| MJson (j : json)       (* (None, json.dumps(j).encode(), "application/json") *)
| MBytes (s : str)       (* x.isoformat().encode() *)
| MStr (s : str)         (* str(x) *)
| MFile.                 (* x.to_tuple() *)

(* isinstance(value, <get_instance_type_string>) as used by the multipart union chain (every member takes part) *)
Definition mp_inst (k : pk) (v : pv) : option bool :=      (* None = the isinstance call itself raises *)
  match k with
  | KNone => None                                           (* isinstance(x, None): TypeError *)
  | KAny => None                                            (* isinstance(x, Any): TypeError *)
  | KBool => Some (match v with PJ (JBool _) => true | _ => false end)
  | KInt => Some (match v with PJ (JInt _) | PJ (JBool _) => true | _ => false end)
  | KFloat => Some (match v with PJ (JFlt _) => true | _ => false end)
  | KStr => Some (match v with PJ (JStr _) => true | PEnum _ (JStr _) => true | _ => false end)
  | KConst _ | KUnion _ => None
  | _ => Some (inst_match k v)
  end.

Section MP.
  Variable T : ctable.
  Variable fuel : nat.
  (* transform_multipart of every non-union kind, for a non-Unset value *)
  Definition mp_leaf (k : pk) (v : pv) : option mpart :=
    match k with
    | KAny | KNone | KBool | KInt | KFloat | KStr => option_map MText (str_of v)
    | KDate | KDateTime => match v with PDate s | PDateTime s => Some (MBytes s) | _ => None end
    | KUuid => option_map MStr (str_of v)
    | KFile => Some MFile
    | KEnum _ _ _ => match v with PEnum _ j => option_map MText (str_of_json j) | _ => None end
    | KLitEnum _ _ => option_map MText (str_of v)
    | KConst _ => option_map MText (str_of v)                (* since repair 6f2d009: the text of the value, like int / str (before: no macro, generation crashed) *)
    (* _transform(..., multipart=True, "to_dict"): items through the inner JSON transform, then json.dumps *)
    | KList _ | KModel _ => match enc T fuel k v with Some j => Some (MJson j) | None => None end
    | KUnion _ => None                                       (* unions are flat: a member is never a union *)
    end.
  (* the union chain: every member takes part in the isinstance chain, the last one is the plain `else:` *)
  Fixpoint mp_chain (ms : list pk) (first : bool) (v : pv) : option mpart :=
    match ms with
    | [] => None
    | [m] => if first then match mp_inst m v with Some true => mp_leaf m v | _ => None end else mp_leaf m v
    | m :: r => match mp_inst m v with
                | Some true => mp_leaf m v
                | Some false => mp_chain r false v
                | None => None
                end
    end.
  (* for an optional property the chain starts after `if isinstance(x, Unset)`, so no member is the first `if` *)
  Definition mp_value (k : pk) (req : bool) (v : pv) : option mpart :=
    match k with KUnion ms => mp_chain ms req v | _ => mp_leaf k v end.

  (* one attribute: None = exception, Some None = omitted (UNSET), Some (Some part) *)
  Definition mp_field (k : pk) (req : bool) (v : pv) : option (option mpart) :=
    match v with
    | PUnset => if req then None else Some None
    | _ => option_map Some (mp_value k req v)
    end.

  Fixpoint mp_props (ps : list (str * (bool * pk))) (fs : list (str * pv)) : option (list (str * mpart)) :=
    match ps with
    | [] => Some []
    | (name, (req, k)) :: ps' =>
        match (fix look (fs : list (str * pv)) : option pv :=
                 match fs with [] => None | (n, v) :: r => if str_eqb n name then Some v else look r end) fs with
        | None => None
        | Some v =>
            match mp_field k req v, mp_props ps' fs with
            | Some (Some p), Some r => Some ((name, p) :: r)
            | Some None, Some r => Some r
            | _, _ => None
            end
        end
    end.

  Fixpoint mp_put_all (kvs : list (str * mpart)) (m : list (str * mpart)) : list (str * mpart) :=
    match kvs with [] => m | (k, v) :: r => mp_put_all r (m_put k v m) end.

  (* to_multipart of an object of class c *)
  Definition to_multipart (c : N) (fs ad : list (str * pv)) : option (list (str * mpart)) :=
    match get_class T c with
    | None => None
    | Some cd =>
        match mp_props (c_props cd) fs with
        | None => None
        | Some kvs =>
            let base := match c_addl cd with
                        | None => Some []
                        | Some ak => map_opt_snd (mp_value ak true) ad
                        end in
            match base with
            | None => None
            | Some b => Some (mp_put_all kvs (mp_put_all b []))
            end
        end
    end.
End MP.
