(* Sites.v — interpolation sites of document text in generated files (C05). Model file: definitions only.
   A site = (slot of the document, kind of generated file, lexical context the text lands in, sanitiser class applied on the way).
   The table of sites is regenerated from the generator's OUTPUT by harness/translate/gen_sites.py (coq/gen/GenSites.v). *)
From Coq Require Import NArith List Bool String Ascii.
Import ListNotations.
Require Import OPC.gen.GenTables OPC.Uni OPC.Names OPC.PyLit.
Open Scope N_scope.

Definition s2l (s : string) : str := map N_of_ascii (list_ascii_of_string s).

(* lexical context of the emitted text *)
Inductive ctx :=
  | CIdent        (* a NAME token (also a name inside f-string braces) *)
  | CPath         (* a component of a generated file's path *)
  | CDQ           (* inside a single-line double-quoted Python literal *)
  | CSQ           (* inside a single-line single-quoted Python literal (for repr-class sanitisers: the whole literal is the image) *)
  | CDoc          (* inside a docstring emitted through helpers.jinja safe_docstring (raw form chosen when a backslash occurs) *)
  | CDocCooked    (* inside a triple-quoted docstring that stays cooked although the text contains a backslash *)
  | CFstrDQ       (* literal part of a double-quoted f-string *)
  | CTomlBasic    (* inside a TOML basic string *)
  | CNumber       (* a NUMBER token *)
  | CMarkdown     (* README text *)
  | CComment      (* a Python / TOML comment *)
  | CCode         (* bare code *)
  | CUnknown.     (* anything the translator could not classify (fail closed) *)

(* what happened to the text on its way from the document to the template *)
Inductive san :=
  | SNone | SEsc (* utils.remove_string_escapes *) | SRepr (* repr *) | SReprEsc (* repr after remove_string_escapes *)
  | SSnake (* PythonIdentifier / snake_case *) | SPascal (* ClassName / pascal_case *) | SKebab | SUpperSnake (* enum member keys *)
  | SSanitize (* PythonIdentifier(skip_snake_case=True): the raw-name fallback for names that collide after snake-casing *)
  | SNumber (* str(int(float(text))) / str(float(text)): the validator's reading of a numeric default, printed as a number *)
  | SRejects (* text with characters outside [A-Za-z0-9_-] never reaches the output: the piece is rejected with a diagnostic *)
  | SUnknown.

Record site := { s_slot : string; s_file : string; s_ctx : ctx; s_san : san }.

Definition ctx_eqb (a b : ctx) : bool :=
  match a, b with
  | CIdent, CIdent | CPath, CPath | CDQ, CDQ | CSQ, CSQ | CDoc, CDoc | CDocCooked, CDocCooked | CFstrDQ, CFstrDQ
  | CTomlBasic, CTomlBasic | CNumber, CNumber | CMarkdown, CMarkdown | CComment, CComment | CCode, CCode | CUnknown, CUnknown => true
  | _, _ => false
  end.
Definition san_eqb (a b : san) : bool :=
  match a, b with
  | SNone, SNone | SEsc, SEsc | SRepr, SRepr | SReprEsc, SReprEsc | SSnake, SSnake | SPascal, SPascal | SKebab, SKebab
  | SUpperSnake, SUpperSnake | SSanitize, SSanitize | SNumber, SNumber | SRejects, SRejects | SUnknown, SUnknown => true
  | _, _ => false
  end.

Definition ident_san (sa : san) : bool :=
  match sa with SSnake | SPascal | SKebab | SUpperSnake => true | _ => false end.

(* ---- the text emitted for payload p ---- *)
Definition field_prefix : str := [102;105;101;108;100;95].   (* config.field_prefix default *)

Definition image (sa : san) (p : str) : str :=
  match sa with
  | SNone | SUnknown | SRejects | SNumber => p
  | SSanitize => python_identifier p field_prefix true
  | SEsc => escape_dq p
  | SRepr => py_repr p
  | SReprEsc => py_repr (escape_dq p)
  | SSnake => python_identifier p field_prefix false
  | SPascal => class_name p field_prefix
  | SKebab => kebab_case p
  | SUpperSnake => upper (snake_case (upper p))
  end.

(* the value the emitted literal is meant to denote. SReprEsc is modelled faithfully: the literal denotes the ESCAPED text *)
Definition site_value (sa : san) (p : str) : str :=
  match sa with
  | SReprEsc => escape_dq p
  | SSanitize => python_identifier p field_prefix true
  | _ => p
  end.

(* ---- inertness predicates (computed by running the PyLit lexers on the emitted text) ---- *)
(* the value denoted by the text when placed inside a q-quoted literal, provided the lexer consumes exactly the text *)
Definition lit_value (q : N) (img : str) : option str :=
  match lex_body q (img ++ [q]) with
  | Some (v, []) => Some v
  | _ => None
  end.
Definition lit_guard (q : N) (img v : str) : bool :=
  match lit_value q img with Some v' => str_eqb v' v | None => false end.
Definition lit_inert (q : N) (img : str) : bool :=
  match lit_value q img with Some _ => true | None => false end.

(* the text is a complete literal of its own (repr output) denoting v *)
Definition whole_guard (img v : str) : bool :=
  match lex_string img with
  | Some (v', []) => str_eqb v' v
  | _ => false
  end.

(* a NUL character anywhere makes CPython reject the whole source file *)
Definition no_nul (s : str) : bool := negb (existsb (N.eqb 0) s).

(* Jinja's indent filter re-joins str.splitlines(): inside a macro rendered through it these characters become a real newline *)
Definition line_sep (c : N) : bool := memN c [11; 12; 28; 29; 30; 133; 8232; 8233].
Definition no_linesep (s : str) : bool := negb (existsb line_sep s).

Definition is_brace (c : N) : bool := (c =? 123) || (c =? 125).
Definition no_brace (s : str) : bool := forallb (fun c => negb (is_brace c)) s.

(* TOML basic strings: control characters are illegal and the only escapes that agree with the Python-literal model used here
   are backslash-quote and backslash-backslash *)
Fixpoint toml_clean (s : str) : bool :=
  match s with
  | [] => true
  | c :: s' =>
    if c =? BS then
      match s' with
      | e :: s'' => ((e =? DQ) || (e =? BS)) && toml_clean s''
      | [] => false
      end
    else negb ((c <? 32) && negb (c =? 9)) && negb (c =? 127) && toml_clean s'
  end.

(* characters an identifier-class sanitiser can emit: outside ASCII anything, inside ASCII only word characters and '-' *)
Definition inert_char (c : N) : bool := (128 <=? c) || is_word c || (c =? 45).

(* the alphabet a validated slot accepts (openapi.py _PATH_PARAM_REGEX: letters, digits, underscore, dash) *)
Definition pathparam_char (c : N) : bool :=
  ((48 <=? c) && (c <=? 57)) || ((65 <=? c) && (c <=? 90)) || ((97 <=? c) && (c <=? 122)) || (c =? 95) || (c =? 45).
(* plain decimal text: the domain on which number normalisation is modelled (as the identity) *)
Definition number_char (c : N) : bool := ((48 <=? c) && (c <=? 57)) || (c =? 46) || (c =? 45).
(* delimiters that the raw-name fallback keeps *)
Definition raw_delim (c : N) : bool := (c =? 32) || (c =? 45) || (c =? 46).

(* ---- the payload domain on which a site is safe ---- *)
Definition slot_guard (s : site) (p : str) : bool :=
  let sa := s_san s in
  let img := image sa p in
  if ident_san sa then
    match s_ctx s with
    | CIdent | CPath => g_xid p          (* C09: under g_xid the derived name is a valid identifier; outside: finding xid_gap *)
    | _ => true                          (* identifier images are inert in every string context *)
    end
  else if match sa with SRejects => true | _ => false end then forallb pathparam_char p
  else if match sa with SNumber => true | _ => false end then
    match s_ctx s with CNumber | CDoc => forallb number_char p | _ => false end
  else
    match s_ctx s with
    | CIdent | CPath => match sa with
                        | SSanitize => is_identifier img && negb (mem_str img keywords)
                        | _ => false
                        end
    | CDQ => lit_guard DQ img (site_value sa p) && no_linesep img
    | CSQ => match sa with
             | SRepr | SReprEsc => whole_guard img (site_value sa p)
             | _ => lit_guard SQ img (site_value sa p) && no_linesep img
             end
    | CFstrDQ => lit_inert DQ img && no_brace img && no_linesep img
    | CTomlBasic => lit_guard DQ img (site_value sa p) && toml_clean img && no_linesep img
    | CDoc => negb (has_triple img) && no_nul img
    | CMarkdown => true
    | _ => false
    end.

(* run-time-meaningful text must come back character for character *)
Definition slot_verbatim (s : site) (p : str) : bool :=
  if ident_san (s_san s) then true else match s_san s with SSanitize | SRejects | SNumber => true | _ => str_eqb (site_value (s_san s) p) p end.

(* ---- which (context, sanitiser) combinations are acceptable ---- *)
Inductive cls := KOk | KNarrow | KNever.

Definition site_class (c : ctx) (sa : san) : cls :=
  match c with
  | CMarkdown => KOk
  | CComment | CCode | CUnknown => KNever
  | _ =>
    if ident_san sa then
      match c with CFstrDQ | CNumber => KNever | _ => KOk end
    else
      match sa, c with
      | SRejects, (CIdent | CPath | CDQ | CSQ | CDoc) => KOk
      | SNumber, (CNumber | CDoc) => KOk
      | SSanitize, (CIdent | CPath) => KNarrow
      | SSanitize, (CDQ | CSQ | CDoc) => KOk
      | SEsc, (CDQ | CTomlBasic | CDoc) => KOk
      | SEsc, CFstrDQ => KNarrow
      | SNone, (CDQ | CTomlBasic | CDoc | CFstrDQ | CSQ) => KNarrow
      | SRepr, CSQ => KOk
      | SRepr, (CDoc | CFstrDQ) => KNarrow
      | SReprEsc, (CSQ | CDoc) => KOk
      | SReprEsc, CFstrDQ => KNarrow
      | _, _ => KNever
      end
  end.

(* the pydantic field a slot label belongs to: the label up to the first '@' *)
Fixpoint field_of (s : string) : string :=
  match s with
  | EmptyString => EmptyString
  | String a r => if Ascii.eqb a "@"%char then EmptyString else String a (field_of r)
  end.

(* Sites of the UNCHANGED tree that are safe only on a narrow payload domain. Each row is a known finding
   (id in the last column, listed in /verif/known_findings.json); a site that needs a narrow guard and is not listed here makes
   all_sites_safe false. Keyed by (pydantic field, file kind, context, sanitiser). *)
Definition ends_with (s suf : string) : bool :=
  let n := String.length s in let m := String.length suf in
  Nat.leb m n && String.eqb (substring (n - m) m s) suf.

(* columns: pydantic field, required suffix of the slot label ("" = any), file kind, context, sanitiser, finding id.
   NO hand-quoted default value (sanitiser SNone inside quotes) is listed, for any kind: a preceding validation is not a guarantee
   (dateutil's isoparse accepts any single character between date and time; UUID() - through int() - tolerates surrounding whitespace,
   newline included: the former finding uuid_default_whitespace, repaired by emitting the default through repr). Defaults of the
   validated kinds are acceptable as repr-emitted literals (class KOk); where such a repr image also lands in a docstring the site is
   listed with an id starting with "validated_by_": not a finding - the validator of the kind cannot let a triple quote through
   (isoparse: one separator character; UUID(): alphabet of hex digits, '-', '{', '}', 'urn:', 'uuid:', '_', '+', whitespace), which the
   oracle checks on every run.
   A literal-enum default is printed with repr into the Attributes / Args docstring (protocol.py to_docstring): a triple quote in the value ends
   the docstring (finding literal_enum_default_docstring). *)
Definition known_narrow : list (string * string * string * ctx * san * string) := [
  ("Schema.description", "", "models/*.py", CDoc, SNone, "desc_code_exec");
  ("Schema.description", "", "api/*/*.py", CDoc, SNone, "desc_code_exec");
  ("Schema.example", "", "models/*.py", CDoc, SNone, "desc_code_exec");
  ("Schema.example", "", "api/*/*.py", CDoc, SNone, "desc_code_exec");
  ("Info.version", "", "setup.py", CDQ, SNone, "meta_injection");
  ("Info.version", "", "pyproject.toml", CTomlBasic, SNone, "meta_injection");
  ("OpenAPI.paths.key", "", "api/*/*.py", CDQ, SNone, "path_injection");
  ("RequestBody.content.key", "", "api/*/*.py", CDQ, SNone, "content_type_injection");
  ("Schema.properties.key", "", "models/*.py", CFstrDQ, SEsc, "const_fstring");
  ("Schema.const", "", "models/*.py", CFstrDQ, SReprEsc, "const_fstring");
  ("Schema.properties.key", "", "models/*.py", CIdent, SSanitize, "raw_fallback");
  ("Parameter.name", "", "api/*/*.py", CIdent, SSanitize, "raw_fallback");
  ("Schema.default", "-uuid", "models/*.py", CDoc, SRepr, "validated_by_uuid");
  ("Schema.default", "-uuid", "api/*/*.py", CDoc, SRepr, "validated_by_uuid");
  ("Schema.default", "-date", "models/*.py", CDoc, SRepr, "validated_by_isoparse");
  ("Schema.default", "-date", "api/*/*.py", CDoc, SRepr, "validated_by_isoparse");
  ("Schema.default", "-datetime", "models/*.py", CDoc, SRepr, "validated_by_isoparse");
  ("Schema.default", "-datetime", "api/*/*.py", CDoc, SRepr, "validated_by_isoparse");
  ("Schema.enum.item", "-default-member", "models/*.py", CDoc, SRepr, "literal_enum_default_docstring");
  ("Schema.enum.item", "-default-member", "api/*/*.py", CDoc, SRepr, "literal_enum_default_docstring")
]%string.

Definition narrow_entry (s : site) : option string :=
  match find (fun e => match e with (f, suf, fl, c, sa, _) =>
                         String.eqb f (field_of (s_slot s)) && ends_with (s_slot s) suf && String.eqb fl (s_file s)
                         && ctx_eqb c (s_ctx s) && san_eqb sa (s_san s) end)
             known_narrow with
  | Some (_, _, _, _, _, id) => Some id
  | None => None
  end.

Definition site_safe (s : site) : bool :=
  match site_class (s_ctx s) (s_san s) with
  | KOk => true
  | KNarrow => match narrow_entry s with Some _ => true | None => false end
  | KNever => false
  end.

(* the finding a payload p outside slot_guard (resp. slot_verbatim) of this site belongs to; empty = none *)
Definition site_finding (s : site) (p : str) : string :=
  if negb (site_safe s) then EmptyString else     (* an unacceptable site explains nothing: every failure there is a violation *)
  if negb (no_nul p) && negb (ident_san (s_san s)) then "nul_char"%string else
  if negb (no_linesep p) && negb (ident_san (s_san s)) && negb (match s_ctx s with CDoc => true | _ => false end) then "linesep_newline"%string else
  match site_class (s_ctx s) (s_san s) with
  | KNarrow =>
    match s_san s with
    | SSanitize => if existsb raw_delim p then (match narrow_entry s with Some id => id | None => EmptyString end)
                   else if negb (g_xid p) then "xid_gap"%string else EmptyString
    | _ => match narrow_entry s with Some id => id | None => EmptyString end
    end
  | KOk =>
    if ident_san (s_san s) then "xid_gap"%string
    else match s_san s, s_ctx s with
         | SEsc, (CDQ | CTomlBasic) => "name_backslash"%string
         | _, _ => EmptyString
         end
  | KNever => EmptyString
  end.
Definition site_verbatim_finding (s : site) : string :=
  match s_san s with SReprEsc => "default_not_verbatim"%string | _ => EmptyString end.

(* plain text of the template around an interpolation inside a q-quoted literal *)
Definition plainc (q c : N) : bool := negb ((c =? q) || (c =? BS) || (c =? NL) || (c =? CR) || (c =? 0)).
Definition plain (q : N) (s : str) : bool := forallb (plainc q) s.

(* lookup helpers used by the harness classifier *)
Definition sites_of (tbl : list site) (slot file : string) : list site :=
  filter (fun s => String.eqb (s_slot s) slot && String.eqb (s_file s) file) tbl.
