(* ProcProps.v — the property loop of model_property._process_properties (parser/properties/model_property.py:240-338) where
   allOf merging (Merge.v, C15) and python-name conflict resolution (Scopes.v, C09) interact.
   Incoming properties arrive in the order of the code: the properties of $ref'd allOf members (each member's required ones first,
   then its optional ones, carrying the python_name the member's own processing left on them), then the schema's own `properties`,
   then the properties of the inline allOf members.  For each one _add_if_no_conflict
     1. merges it with the stored property of the same document name (merge_properties = Merge.merge / Merge.add_prop);
        the merged object is an `evolve` copy of whichever side _merge_common_attributes was given as BASE, so it carries the BASE's
        python_name: the stored one's (possibly already renamed by a raw-name fallback) or the incoming one's (base_is_new);
     2. scans the stored properties in dict order, SKIPPING the entry of the same document name, and resolves every python_name
        collision by the raw-name fallback (Scopes.scan_conflicts, reused unchanged);
     3. stores the result under its document name (dict: in place or appended; Scopes.put_attr / Merge.add_prop).
   The state is kept as two parallel lists with the same document names in the same order: the python names (Scopes.attr) and the
   merged property payloads (Merge.mprop).
   Abstraction: `prop1 == prop2` of _merge_same_type also compares python_name; when two declarations are equal except for the
   python name the code takes the _merge_common_attributes path (a copy of prop1 with its own default converted again) where
   Merge.merge returns p1 itself: the same value whenever converting a property's own default again gives that default.
   Model file: definitions only. *)
From Coq Require Import NArith ZArith List Bool.
Import ListNotations.
Require Import OPC.gen.GenTables OPC.Uni OPC.Names OPC.PyLit OPC.Values OPC.Merge OPC.Scopes.
Open Scope N_scope.

Inductive pres (A : Type) : Type :=
| POk (a : A)
| PErrMerge      (* merge_properties returned a PropertyError (or raised) *)
| PErrName       (* _resolve_naming_conflict: the raw names collide too ("Conflicting property names") *)
| PErrRef.       (* an allOf reference that is missing / was not processed *)
Arguments POk {A} a.
Arguments PErrMerge {A}.
Arguments PErrName {A}.
Arguments PErrRef {A}.

(* an incoming property (and an outgoing one): document name, current python_name, payload *)
Record inp := mk_inp { i_name : str; i_py : str; i_prop : mprop }.

(* which object merge_properties(prop1, prop2) hands to _merge_common_attributes as base: true = prop2 (the new declaration).
   Branch by branch as in merge_properties.py (only consulted when Merge.merge succeeds):
     prop2 Any -> prop1;  prop1 Any -> prop2;  two enums -> evolve(prop1, ...);  one enum -> the enum;
     same class -> prop1;  int/float -> the int (prop1 when both);  string/formatted string -> the formatted one *)
Definition base_is_new (p1 p2 : mprop) : bool :=
  let k1 := mp_kind p1 in let k2 := mp_kind p2 in
  if mkind_eqb k2 MAny then false
  else if mkind_eqb k1 MAny then true
  else if mkind_eqb k1 MEnum || mkind_eqb k2 MEnum then negb (mkind_eqb k1 MEnum)
  else if mkind_eqb k1 MLitEnum || mkind_eqb k2 MLitEnum then negb (mkind_eqb k1 MLitEnum)
  else if mkind_eqb k1 k2 then false
  else if mkind_eqb k1 MInt && mkind_eqb k2 MFloat then false
  else if mkind_eqb k2 MInt && mkind_eqb k1 MFloat then true
  else if mkind_eqb k1 MStr && is_fmt k2 then true
  else false.

Record pstate := mk_st { st_attrs : list attr; st_props : list (str * mprop) }.
Definition st_empty : pstate := mk_st [] [].

Fixpoint find_attr (n : str) (l : list attr) : option attr :=
  match l with
  | [] => None
  | a :: l' => if str_eqb (a_name a) n then Some a else find_attr n l'
  end.
Fixpoint find_prop (n : str) (l : list (str * mprop)) : option mprop :=
  match l with
  | [] => None
  | np :: l' => if str_eqb (fst np) n then Some (snd np) else find_prop n l'
  end.

(* python_name of merged_prop before the scan *)
Definition merged_py (st : pstate) (i : inp) : str :=
  match find_attr (i_name i) (st_attrs st), find_prop (i_name i) (st_props st) with
  | Some a, Some p1 => if base_is_new p1 (i_prop i) then i_py i else a_py a
  | _, _ => i_py i
  end.

Definition attr_eqb (a b : attr) : bool := str_eqb (a_name a) (a_name b) && str_eqb (a_py a) (a_py b).

(* _add_if_no_conflict; the boolean says that the scan changed no python name (no raw-name fallback in this step) *)
Definition add_pp_ev (o : oracles) (prefix : str) (st : pstate) (i : inp) : pres (pstate * bool) :=
  match add_prop o (st_props st) (i_name i) (i_prop i) with
  | None => PErrMerge
  | Some props' =>
    let cur := mk_attr (i_name i) (merged_py st i) in
    match scan_conflicts prefix cur (st_attrs st) with
    | Err => PErrName
    | Ok (c, attrs') =>
      POk (mk_st (put_attr c attrs') props', attr_eqb c cur && list_eqb attr_eqb attrs' (st_attrs st))
    end
  end.

Fixpoint process_ev (o : oracles) (prefix : str) (st : pstate) (q : bool) (ins : list inp) : pres (pstate * bool) :=
  match ins with
  | [] => POk (st, q)
  | i :: ins' =>
    match add_pp_ev o prefix st i with
    | POk (st', q') => process_ev o prefix st' (q && q') ins'
    | PErrMerge => PErrMerge
    | PErrName => PErrName
    | PErrRef => PErrRef
    end
  end.

Definition out_of (st : pstate) : list inp :=
  map (fun ap => mk_inp (a_name (fst ap)) (a_py (fst ap)) (snd (snd ap))) (combine (st_attrs st) (st_props st)).

Definition pres_map {A B} (f : A -> B) (r : pres A) : pres B :=
  match r with POk a => POk (f a) | PErrMerge => PErrMerge | PErrName => PErrName | PErrRef => PErrRef end.

(* the `properties` dict at the end of the loop, in dict order *)
Definition process (o : oracles) (prefix : str) (ins : list inp) : pres (list inp) :=
  pres_map (fun sq => out_of (fst sq)) (process_ev o prefix st_empty true ins).

(* run-time guard: no step of the run renamed anything *)
Definition g_quiet (o : oracles) (prefix : str) (ins : list inp) : bool :=
  match process_ev o prefix st_empty true ins with POk (_, q) => q | _ => true end.

(* the distinct document names in order of first appearance (= dict insertion order) *)
Definition dedup_step (acc : list str) (n : str) : list str := if mem_str n acc then acc else acc ++ [n].
Definition dedup (names : list str) : list str := fold_left dedup_step names [].
Definition in_names (ins : list inp) : list str := dedup (map i_name ins).

(* every incoming property still has its default python name PythonIdentifier(name, prefix) *)
Definition ins_default (prefix : str) (ins : list inp) : bool :=
  forallb (fun i => str_eqb (i_py i) (py_default prefix (i_name i))) ins.

(* the input Merge.collect sees *)
Definition payloads (l : list inp) : list (str * mprop) := map (fun i => (i_name i, i_prop i)) l.

(* ------------------------------------------------------------------ document level *)
(* an object schema as far as the loop reads it: `properties` (name, property built with required = false) and `required` *)
Definition decl := (str * mprop)%type.
Definition schema := (list decl * list str)%type.

Definition set_required (r : bool) (p : mprop) : mprop :=
  match p with MP k _ d ds e pl => MP k r d ds e pl end.

(* property_from_data(name=key, required=key in required_set, ...): default python name *)
Definition own_inputs (prefix : str) (req : list str) (ds : list decl) : list inp :=
  map (fun d => mk_inp (fst d) (py_default prefix (fst d)) (set_required (mem_str (fst d) req) (snd d))) ds.

(* chain(sub_model.required_properties, sub_model.optional_properties) *)
Definition req_first (l : list inp) : list inp :=
  filter (fun i => mp_required (i_prop i)) l ++ filter (fun i => negb (mp_required (i_prop i))) l.

(* a referenced member: a plain object schema (no allOf of its own), processed before the composed schema *)
Definition parent_out (o : oracles) (prefix : str) (s : schema) : pres (list inp) :=
  pres_map req_first (process o prefix (own_inputs prefix (snd s) (fst s))).

Inductive member := MRef (k : nat) | MInl (s : schema).
Record cdoc := mk_cdoc { c_parents : list schema; c_members : list member; c_own : schema }.

(* the `for sub_prop in data.allOf` loop: referenced members are added at once, inline members only queue their properties *)
Fixpoint run_refs (o : oracles) (prefix : str) (ps : list schema) (ms : list member) (sq : pstate * bool) : pres (pstate * bool) :=
  match ms with
  | [] => POk sq
  | MInl _ :: ms' => run_refs o prefix ps ms' sq
  | MRef k :: ms' =>
    match nth_error ps k with
    | None => PErrRef
    | Some s =>
      match parent_out o prefix s with
      | POk l =>
        match process_ev o prefix (fst sq) (snd sq) l with
        | POk sq' => run_refs o prefix ps ms' sq'
        | PErrMerge => PErrMerge
        | PErrName => PErrName
        | PErrRef => PErrRef
        end
      | _ => PErrRef     (* the member itself failed: "Reference ... in allOf was not processed" *)
      end
    end
  end.

Definition inline_decls (ms : list member) : list decl :=
  flat_map (fun m => match m with MInl s => fst s | MRef _ => [] end) ms.
Definition inline_req (ms : list member) : list str :=
  flat_map (fun m => match m with MInl s => snd s | MRef _ => [] end) ms.

(* unprocessed_props = own properties, then the inline members' properties; required_set = own required + inline members' required *)
Definition unprocessed (prefix : str) (d : cdoc) : list inp :=
  own_inputs prefix (snd (c_own d) ++ inline_req (c_members d)) (fst (c_own d) ++ inline_decls (c_members d)).

Definition process_doc_ev (o : oracles) (prefix : str) (d : cdoc) : pres (pstate * bool) :=
  match run_refs o prefix (c_parents d) (c_members d) (st_empty, true) with
  | POk sq => process_ev o prefix (fst sq) (snd sq) (unprocessed prefix d)
  | PErrMerge => PErrMerge
  | PErrName => PErrName
  | PErrRef => PErrRef
  end.

Definition process_doc (o : oracles) (prefix : str) (d : cdoc) : pres (list inp) :=
  pres_map (fun sq => out_of (fst sq)) (process_doc_ev o prefix d).

Definition g_quiet_doc (o : oracles) (prefix : str) (d : cdoc) : bool :=
  match process_doc_ev o prefix d with POk (_, q) => q | _ => true end.

(* the flat incoming list of the composed schema (None: some referenced member is missing or failed) *)
Fixpoint ref_inputs (o : oracles) (prefix : str) (ps : list schema) (ms : list member) : option (list inp) :=
  match ms with
  | [] => Some []
  | MInl _ :: ms' => ref_inputs o prefix ps ms'
  | MRef k :: ms' =>
    match nth_error ps k with
    | None => None
    | Some s =>
      match parent_out o prefix s, ref_inputs o prefix ps ms' with
      | POk l, Some r => Some (l ++ r)
      | _, _ => None
      end
    end
  end.
Definition doc_inputs (o : oracles) (prefix : str) (d : cdoc) : option (list inp) :=
  match ref_inputs o prefix (c_parents d) (c_members d) with
  | Some r => Some (r ++ unprocessed prefix d)
  | None => None
  end.

(* static guard on the referenced members: inside each of them no two property names collide after snake-casing
   (then each member hands its properties on with their default python names) *)
Definition g_parents (prefix : str) (d : cdoc) : bool :=
  forallb (fun s : schema => g_no_raw_fallback prefix (dedup (map fst (fst s)))) (c_parents d).

(* what the oracle of the check asks about an observed failure: does the unchanged algorithm itself produce a duplicate? *)
Definition has_dup_py (r : pres (list inp)) : bool :=
  match r with POk l => negb (nodupb (map i_py l)) | _ => false end.
