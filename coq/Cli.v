(* Cli.v -- the error plumbing of the generator (C06).  Model file: definitions only.

   1. cli.handle_errors (openapi_python_client/cli.py:87-125): exit status from the list of diagnostics and fail_on_warning.
   2. __init__.generate / _get_project_for_url_or_path / _get_document / GeneratorData.from_dict (validation part) /
      Project.build + _get_errors: a loader error or a validation error is returned as the only diagnostic and Project is
      never built; otherwise the file effects are those of Fs.build and the diagnostics are the concatenation
      collection.parse_errors (per tag) ++ schemas.errors ++ parameters.errors ++ Project.errors.
      Two uncaught-exception sites of the pinned code are modelled faithfully and switched by regenerated facts
      (gen/GenCli.v): the test ["swagger" in data] on a value that does not support [in] (scalar_document_crash, off when
      gen_scalar_guard) and Path.mkdir without parents=True below a missing parent (missing_parent_dir, off when
      gen_mkdir_parents).
   3. The retry-until-no-progress loops of parser/properties/__init__.py (_create_schemas, _process_models,
      build_parameters) as ONE generic work-list loop over an arbitrary step function, with a fuel-free big-step
      semantics (Runs) next to the executable fuelled function (run_loop).
   4. parser/bodies.py _resolve_reference: the request-body $ref chain with its visited list. *)
From Coq Require Import NArith List Bool.
Import ListNotations.
Require Import OPC.Uni OPC.Names OPC.Fs OPC.Retry OPC.gen.GenCli.
Open Scope N_scope.

(* ------------------------------------------------------------------ 1. diagnostics and the exit rule *)
Inductive level := LWarning | LError.
Definition level_eqb (a b : level) : bool :=
  match a, b with LWarning, LWarning => true | LError, LError => true | _, _ => false end.
(* d_id: identity of the error object (the harness numbers them); the prose is not modelled *)
Record diag := mkDiag { d_level : level; d_id : N }.
Definition is_error (e : diag) : bool := level_eqb (d_level e) LError.

(* error_level = WARNING; for error in errors: if error.level == ERROR: error_level = ERROR; break *)
Fixpoint scan_level (errs : list diag) : level :=
  match errs with
  | [] => LWarning
  | e :: t => if is_error e then LError else scan_level t
  end.

Record cli_out := mkOut { co_exit : N; co_banner : option level; co_printed : list N }.
Definition handle_errors (errs : list diag) (fow : bool) : cli_out :=
  match errs with
  | [] => mkOut 0 None []                                             (* if len(errors) == 0: return *)
  | _ => let lv := scan_level errs in
         mkOut (if level_eqb lv LError || fow then 1 else 0)          (* raise typer.Exit(code=1) *)
               (Some lv) (map d_id errs)
  end.
Definition exit_code (errs : list diag) (fow : bool) : N := co_exit (handle_errors errs fow).

(* the level names of the code, for the regenerated fact *)
Definition s_WARNING : str := [87;65;82;78;73;78;71].
Definition s_ERROR : str := [69;82;82;79;82].
Definition s_GeneratorError : str := [71;101;110;101;114;97;116;111;114;69;114;114;111;114].
Definition s_ParseError : str := [80;97;114;115;101;69;114;114;111;114].
Fixpoint strs_eqb (a b : list str) : bool :=
  match a, b with
  | [], [] => true
  | x :: a', y :: b' => str_eqb x y && strs_eqb a' b'
  | _, _ => false
  end.
Fixpoint pairs_eqb (a b : list (str * str)) : bool :=
  match a, b with
  | [], [] => true
  | (x1, x2) :: a', (y1, y2) :: b' => str_eqb x1 y1 && str_eqb x2 y2 && pairs_eqb a' b'
  | _, _ => false
  end.
(* what the model assumes about the code, decided on the regenerated facts *)
Definition code_shape_ok : bool :=
  strs_eqb gen_error_levels [s_WARNING; s_ERROR]
  && pairs_eqb gen_default_levels [(s_GeneratorError, s_ERROR); (s_ParseError, s_WARNING)]
  && gen_exit_rule && gen_generate_shape && gen_get_errors_shape && gen_loader_catches && gen_validation_caught
  && forallb snd gen_retry_loops && Nat.eqb (length gen_retry_loops) 3 && gen_body_ref_guard && gen_kind_guards && gen_detail_none_safe && gen_ctype_dispatch.

(* ------------------------------------------------------------------ 2. generate *)
Inductive outcome (A : Type) := Crash | Ret (a : A).
Arguments Crash {A}.
Arguments Ret {A} a.

(* GeneratorError(...) built by the loaders, by from_dict and by Project.build: default level ERROR *)
Definition gen_error (id : N) : diag := mkDiag LError id.

(* what the parser stages hand over when the document validates *)
Record gen_data := mkData {
  g_schema_errs : list diag;          (* schemas.errors returned by EndpointCollection.from_data *)
  g_param_errs : list diag;           (* parameters.errors *)
  g_collections : list (list diag);   (* collection.parse_errors, one list per tag, in dict order *)
  g_doc : Fs.doc }.
Definition openapi_errors (g : gen_data) : list diag := g_schema_errs g ++ g_param_errs g.
(* Project._get_errors *)
Definition get_errors (g : gen_data) (hooks : list diag) : list diag :=
  concat (g_collections g) ++ openapi_errors g ++ hooks.

(* one run of the generator: every way the stages before the writer can come out *)
Record scenario := mkScenario {
  sc_load : option N;           (* Some id: _get_document returned GeneratorError id (unreadable JSON / YAML / URL) *)
  sc_in_ok : bool;              (* the loaded value supports the test ["swagger" in data] (str, list, dict, set) *)
  sc_validation : option N;     (* Some id: pydantic ValidationError, turned into GeneratorError id *)
  sc_data : gen_data;
  sc_hooks : list diag;         (* Project.errors: post-hook diagnostics *)
  sc_exists_id : N;             (* identity of the Directory-already-exists error *)
  sc_fl : flavour; sc_pkg : str; sc_overwrite : bool; sc_dir_exists : bool; sc_parent_exists : bool; sc_gen : N }.

Definition generate_with (scalar_guard mkdir_parents : bool) (sc : scenario) (t : tree) : outcome (list diag) * tree :=
  match sc_load sc with
  | Some id => (Ret [gen_error id], t)
  | None =>
    match sc_validation sc with
    | Some id => if scalar_guard || sc_in_ok sc then (Ret [gen_error id], t) else (Crash, t)
    | None =>
      if negb (sc_parent_exists sc) && negb (sc_dir_exists sc) && negb mkdir_parents then (Crash, t)   (* FileNotFoundError *)
      else let bt := Fs.build (sc_fl sc) (sc_pkg sc) (sc_overwrite sc) (sc_dir_exists sc) (g_doc (sc_data sc)) (sc_gen sc) t in
           if snd bt then (Ret [gen_error (sc_exists_id sc)], fst bt)
           else (Ret (get_errors (sc_data sc) (sc_hooks sc)), fst bt)
    end
  end.
(* the code as it is now *)
Definition generate (sc : scenario) (t : tree) : outcome (list diag) * tree := generate_with gen_scalar_guard gen_mkdir_parents sc t.

Definition rejected (sc : scenario) : bool :=
  match sc_load sc, sc_validation sc with None, None => false | _, _ => true end.

Definition cli_with (scalar_guard mkdir_parents : bool) (sc : scenario) (fow : bool) (t : tree) : outcome cli_out * tree :=
  match generate_with scalar_guard mkdir_parents sc t with
  | (Crash, t') => (Crash, t')
  | (Ret errs, t') => (Ret (handle_errors errs fow), t')
  end.
Definition cli (sc : scenario) (fow : bool) (t : tree) : outcome cli_out * tree := cli_with gen_scalar_guard gen_mkdir_parents sc fow t.

(* guards: the proved domain of never-crashes-in-the-model *)
Definition g_scalar_document (scalar_guard : bool) (sc : scenario) : bool :=
  match sc_load sc, sc_validation sc with None, Some _ => scalar_guard || sc_in_ok sc | _, _ => true end.
Definition g_parent_dir (mkdir_parents : bool) (sc : scenario) : bool :=
  match sc_load sc, sc_validation sc with
  | None, None => sc_parent_exists sc || sc_dir_exists sc || mkdir_parents
  | _, _ => true
  end.

(* ------------------------------------------------------------------ 3. the retry-until-no-progress loops *)
Section Worklist.
  Variables (I S E : Type).
  (* what one attempt on one item does: success (progress), failure re-queued for the next round with an error that only
     counts if this round is the last, or a permanent failure (error kept, item not re-queued, no progress) *)
  Inductive verdict := VDone | VStay (e : E) | VDrop (e : E).
  Variable step : S -> I -> S * verdict.

  Record round_res := mkRound { rr_state : S; rr_next : list I; rr_stay : list E; rr_drop : list E; rr_progress : bool }.
  (* for item in to_process: ... (the state is threaded through the for loop) *)
  Fixpoint round (s : S) (todo : list I) : round_res :=
    match todo with
    | [] => mkRound s [] [] [] false
    | i :: t =>
      let sv := step s i in
      let r := round (fst sv) t in
      match snd sv with
      | VDone => mkRound (rr_state r) (rr_next r) (rr_stay r) (rr_drop r) true
      | VStay e => mkRound (rr_state r) (i :: rr_next r) (e :: rr_stay r) (rr_drop r) (rr_progress r)
      | VDrop e => mkRound (rr_state r) (rr_next r) (rr_stay r) (e :: rr_drop r) (rr_progress r)
      end
    end.

  Record loop_res := mkLoop { lr_state : S; lr_left : list I; lr_errors : list E; lr_rounds : nat; lr_trace : list I; lr_exhausted : bool }.
  (* while still_making_progress: ...; errors = permanent ones of every round ++ re-queue errors of the LAST round *)
  Fixpoint loop (fuel : nat) (s : S) (todo : list I) (drops : list E) (n : nat) (tr : list I) : loop_res :=
    match fuel with
    | O => mkLoop s todo drops n tr true
    | Datatypes.S f =>
      let r := round s todo in
      if rr_progress r then loop f (rr_state r) (rr_next r) (drops ++ rr_drop r) (Datatypes.S n) (tr ++ todo)
      else mkLoop (rr_state r) (rr_next r) (drops ++ rr_drop r ++ rr_stay r) (Datatypes.S n) (tr ++ todo) false
    end.
  Definition run_loop (s : S) (todo : list I) : loop_res := loop (Datatypes.S (length todo)) s todo [] O [].

  (* the same loop without fuel: big-step semantics of the while statement *)
  Inductive Runs : S -> list I -> list E -> nat -> list I -> loop_res -> Prop :=
  | RunsStop s todo drops n tr :
      rr_progress (round s todo) = false ->
      Runs s todo drops n tr (mkLoop (rr_state (round s todo)) (rr_next (round s todo))
                                     (drops ++ rr_drop (round s todo) ++ rr_stay (round s todo)) (Datatypes.S n) (tr ++ todo) false)
  | RunsMore s todo drops n tr res :
      rr_progress (round s todo) = true ->
      Runs (rr_state (round s todo)) (rr_next (round s todo)) (drops ++ rr_drop (round s todo)) (Datatypes.S n) (tr ++ todo) res ->
      Runs s todo drops n tr res.
End Worklist.
Arguments VDone {E}.
Arguments VStay {E} e.
Arguments VDrop {E} e.
Arguments round {I S E} step s todo.
Arguments loop {I S E} step fuel s todo drops n tr.
Arguments run_loop {I S E} step s todo.
Arguments Runs {I S E} step _ _ _ _ _ _.
Arguments rr_state {I S E} _.
Arguments rr_next {I S E} _.
Arguments rr_stay {I S E} _.
Arguments rr_drop {I S E} _.
Arguments rr_progress {I S E} _.
Arguments lr_state {I S E} _.
Arguments lr_left {I S E} _.
Arguments lr_errors {I S E} _.
Arguments lr_rounds {I S E} _.
Arguments lr_trace {I S E} _.
Arguments lr_exhausted {I S E} _.
Arguments mkLoop {I S E} _ _ _ _ _ _.
Arguments mkRound {I S E} _ _ _ _ _.

(* Retry.v (dependency-graph oracle) is an instance *)
Definition step_retry (g : graph) (done : list N) (n : N) : list N * @verdict N :=
  if ready g done n then (n :: done, VDone) else (done, VStay n).

(* replaying a recorded run of the real loop (correspondence): perm = items the loop rejects without attempting them
   (a Reference component, an unparsable name); the state is the list of recorded outcomes still to be consumed
   (0 = success, 1 = failure re-queued, 2 = permanent failure) and the number of attempts made so far, which also names the
   error object of that attempt.  An exhausted record reads as a failure. *)
Definition step_replay (perm : list N) (s : list N * N) (i : N) : (list N * N) * @verdict N :=
  if memN i perm then (s, VDrop (1000000 + i))
  else match fst s with
       | [] => (s, VStay (snd s))
       | o :: rest => ((rest, N.succ (snd s)), if o =? 0 then VDone else if o =? 1 then VStay (snd s) else VDrop (snd s))
       end.

(* ------------------------------------------------------------------ 4. request-body $ref chains (bodies._resolve_reference) *)
Inductive rbody := RRef (r : str) | RBody (id : N).
Definition rb_table := list (str * rbody).       (* components.requestBodies, dict order; keys distinct *)
Fixpoint rb_get (tb : rb_table) (k : str) : option rbody :=
  match tb with
  | [] => None
  | (k', v) :: tb' => if str_eqb k' k then Some v else rb_get tb' k
  end.
(* get_reference_simple_name: ref_path.split("/")[-1] *)
Definition simple_name (r : str) : str := fold_left (fun acc c => if c =? 47 then [] else acc ++ [c]) r [].

Record rl_state := mkRl { rl_body : option rbody; rl_seen : list str; rl_steps : nat; rl_exhausted : bool }.
(* while isinstance(body, Reference) and body.ref not in references_seen: seen.append(body.ref); body = table.get(simple(body.ref))
   (rl_seen is kept newest first) *)
Fixpoint resolve_loop (fuel : nat) (tb : rb_table) (b : option rbody) (seen : list str) (steps : nat) : rl_state :=
  match fuel with
  | O => mkRl b seen steps true
  | Datatypes.S f =>
    match b with
    | Some (RRef r) => if mem_str r seen then mkRl b seen steps false
                       else resolve_loop f tb (rb_get tb (simple_name r)) (r :: seen) (Datatypes.S steps)
    | _ => mkRl b seen steps false
    end
  end.

Inductive rres := ResNone | ResBody (id : N) | ResCircular (r : str) | ResUnresolved (r : str).
Definition resolve_run (tb : rb_table) (b : option rbody) : rl_state := resolve_loop (Datatypes.S (Datatypes.S (length tb))) tb b [] O.
Definition resolve_reference (tb : rb_table) (b : option rbody) : rres :=
  match b with
  | None => ResNone
  | Some _ =>
    let st := resolve_run tb b in
    match rl_body st with
    | Some (RRef r) => ResCircular r                                   (* ParseError Circular $ref in request body *)
    | Some (RBody id) => ResBody id
    | None => match rl_seen st with r :: _ => ResUnresolved r | [] => ResNone end
    end
  end.
(* one hop of the chain, for the specification *)
Definition follow (tb : rb_table) (b : option rbody) : option rbody :=
  match b with Some (RRef r) => rb_get tb (simple_name r) | _ => b end.
(* the n-th element of the chain starting at b0 *)
Definition chain (tb : rb_table) (b0 : option rbody) (n : nat) : option rbody := Nat.iter n (follow tb) b0.
Definition is_ref (b : option rbody) : bool := match b with Some (RRef _) => true | _ => false end.
