(* GraphThm.v -- theorems about the schema-graph machine of Graph.v, for ALL graphs:
   loops_terminate (the fuel of the three loops suffices), accounting (every component is a survivor or named in a diagnostic),
   removal_closed / classes_closed (what survives refers only to survivors, under the guards), the refutation witnesses. *)
From Coq Require Import NArith List Bool Lia PeanoNat.
Import ListNotations.
Require Import OPC.Graph.
Open Scope N_scope.

(* ------------------------------------------------------------------ association lists *)
Lemma has_lookup {A} (l : list (N * A)) k : has l k = true <-> exists v, lookup l k = Some v.
Proof. unfold has. destruct (lookup l k) eqn:E; split; intro H; eauto; try discriminate. destruct H; discriminate. Qed.

Lemma has_cons {A} (l : list (N * A)) k k' v : has ((k', v) :: l) k = (k' =? k) || has l k.
Proof. unfold has. cbn [lookup]. destruct (k' =? k); reflexivity. Qed.

Lemma has_in {A} (l : list (N * A)) k : has l k = true <-> In k (map fst l).
Proof.
  induction l as [|[k' v] l IH]; cbn [map fst].
  - unfold has. cbn. split; [discriminate|intros []].
  - rewrite has_cons, orb_true_iff, IH, N.eqb_eq. cbn. tauto.
Qed.

Lemma has_del_same {A} (l : list (N * A)) k : has (del k l) k = false.
Proof.
  destruct (has (del k l) k) eqn:E; [|reflexivity]. apply has_in in E. apply in_map_iff in E.
  destruct E as [[k' v] [E1 E2]]. cbn in E1. subst k'. unfold del in E2. apply filter_In in E2. cbn in E2.
  rewrite N.eqb_refl in E2. destruct E2; discriminate.
Qed.

Lemma has_del_other {A} (l : list (N * A)) k k' : k <> k' -> has (del k l) k' = has l k'.
Proof.
  intro Hne. induction l as [|[k0 v] l IH]; [reflexivity|].
  unfold del. cbn [filter fst]. destruct (N.eqb_spec k0 k) as [E|E]; cbn [negb].
  - subst k0. rewrite has_cons. destruct (N.eqb_spec k k'); [contradiction|]. cbn. exact IH.
  - rewrite !has_cons. fold (del k l). rewrite IH. reflexivity.
Qed.

Lemma has_del_le {A} (l : list (N * A)) k k' : has (del k l) k' = true -> has l k' = true.
Proof. destruct (N.eq_dec k k') as [->|Hne]; [rewrite has_del_same; discriminate|now rewrite has_del_other]. Qed.

Lemma del_length {A} (l : list (N * A)) k : (length (del k l) <= length l)%nat.
Proof. unfold del. induction l as [|a l IH]; cbn [filter length]; [lia|]. destruct (negb (fst a =? k)); cbn [length]; lia. Qed.

Lemma del_length_lt {A} (l : list (N * A)) k : has l k = true -> (length (del k l) < length l)%nat.
Proof.
  induction l as [|[k0 v] l IH]; [unfold has; cbn; discriminate|].
  rewrite has_cons. unfold del. cbn [filter fst]. destruct (N.eqb_spec k0 k) as [E|E]; cbn [negb orb length].
  - intros _. fold (del k l). pose proof (del_length l k). lia.
  - intro H. fold (del k l). specialize (IH H). lia.
Qed.

Lemma mem_in k l : mem k l = true <-> In k l.
Proof.
  unfold mem. rewrite existsb_exists. split.
  - intros [x [Hx He]]. apply N.eqb_eq in He. now subst.
  - intro H. exists k. split; [exact H|apply N.eqb_refl].
Qed.

Lemma root_eqb_eq a b : root_eqb a b = true <-> a = b.
Proof.
  destruct a, b; cbn; rewrite ?N.eqb_eq; split; intro H; try discriminate; try (now subst); try (now inversion H).
Qed.

Lemma mem_root_in r l : mem_root r l = true <-> In r l.
Proof.
  unfold mem_root. rewrite existsb_exists. split.
  - intros [x [Hx He]]. apply root_eqb_eq in He. now subst.
  - intro H. exists r. split; [exact H|now apply root_eqb_eq].
Qed.

(* ------------------------------------------------------------------ the retry loops, generically *)
Section RetryThm.
  Context {St It : Type}.
  Variable try : St -> It -> St * option N.
  Variable is_final : N -> bool.

  Lemma round_len s todo :
    (length (r_retry (round try is_final s todo)) <= length todo)%nat /\
    (r_prog (round try is_final s todo) = true -> length (r_retry (round try is_final s todo)) < length todo)%nat.
  Proof.
    revert s. induction todo as [|x t IH]; intro s; cbn [round].
    - cbn. split; [lia|discriminate].
    - destruct (try s x) as [s' [c|]].
      + destruct (IH s') as [I1 I2]. destruct (is_final c); cbn [r_retry r_prog length]; split; intros; try specialize (I2 H); lia.
      + destruct (IH s') as [I1 I2]. cbn [r_retry r_prog length]. split; intros; lia.
  Qed.

  (* T loops_terminate (generic): any fuel above the length of the pending list gives the same result: the loop always ends
     because a round made no progress, never because the fuel ran out *)
  Lemma loop_fuel : forall f1 f2 s todo fin, (length todo < f1)%nat -> (length todo < f2)%nat ->
    loop try is_final f1 s todo fin = loop try is_final f2 s todo fin.
  Proof.
    induction f1 as [|f1 IH]; intros f2 s todo fin H1 H2; [lia|].
    destruct f2 as [|f2]; [lia|]. cbn [loop].
    destruct (r_prog (round try is_final s todo)) eqn:E; [|reflexivity].
    pose proof (round_len s todo) as [_ L]. specialize (L E).
    apply IH; rewrite map_length; lia.
  Qed.

  (* the exit is a round without progress *)
  Lemma loop_exit : forall f s todo fin, (length todo < f)%nat -> r_prog (loop try is_final f s todo fin) = false.
  Proof.
    induction f as [|f IH]; intros s todo fin H; [lia|]. cbn [loop].
    destruct (r_prog (round try is_final s todo)) eqn:E; [|reflexivity].
    pose proof (round_len s todo) as [_ L]. specialize (L E). apply IH. rewrite map_length. lia.
  Qed.

  (* invariants and accounting: P is preserved by every attempt; Q x s ("x is done in s") is established by a successful
     attempt and preserved afterwards.  Then every pending item is done, or carries an error of the last round, or a final one *)
  Variable P : St -> Prop.
  Variable Q : It -> St -> Prop.
  Variable Dom : It -> Prop.
  Hypothesis P_step : forall s x s' r, Dom x -> P s -> try s x = (s', r) -> P s'.
  Hypothesis Q_step : forall s x y s' r, Dom y -> P s -> try s y = (s', r) -> Q x s -> Q x s'.
  Hypothesis Q_succ : forall s x s', Dom x -> P s -> try s x = (s', None) -> Q x s'.

  Lemma round_inv : forall todo s, (forall x, In x todo -> Dom x) -> P s ->
    let r := round try is_final s todo in
    P (r_st r) /\ (forall x, Q x s -> Q x (r_st r)) /\
    (forall x, In x todo -> Q x (r_st r) \/ (exists c, In (x, c) (r_retry r)) \/ (exists c, In (x, c) (r_final r))) /\
    (forall x c, In (x, c) (r_retry r) -> In x todo) /\ (forall x c, In (x, c) (r_final r) -> In x todo).
  Proof.
    induction todo as [|x t IH]; intros s HD HP; cbn [round].
    - cbn. repeat split; auto; intros; contradiction.
    - assert (Dx : Dom x) by (apply HD; now left).
      assert (HD' : forall y, In y t -> Dom y) by (intros y Hy; apply HD; now right).
      destruct (try s x) as [s' [c|]] eqn:E.
      + pose proof (P_step _ _ _ _ Dx HP E) as HP'. destruct (IH s' HD' HP') as (I1 & I2 & I3 & I4 & I5).
        destruct (is_final c); cbn [r_st r_retry r_final]; (split; [exact I1|]); (split; [intros y Hy; apply I2; exact (Q_step s y x s' _ Dx HP E Hy)|]).
        * split; [|split].
          -- intros y [Hy|Hy]; [subst y; right; right; exists c; now left|].
             destruct (I3 y Hy) as [H|[[c' H]|[c' H]]]; [now left|right; left; eauto|right; right; exists c'; now right].
          -- intros y c' Hy. right. eapply I4; eauto.
          -- intros y c' [Hy|Hy]; [inversion Hy; now left|right; eapply I5; eauto].
        * split; [|split].
          -- intros y [Hy|Hy]; [subst y; right; left; exists c; now left|].
             destruct (I3 y Hy) as [H|[[c' H]|[c' H]]]; [now left|right; left; exists c'; now right|right; right; eauto].
          -- intros y c' [Hy|Hy]; [inversion Hy; now left|right; eapply I4; eauto].
          -- intros y c' Hy. right. eapply I5; eauto.
      + pose proof (P_step _ _ _ _ Dx HP E) as HP'. destruct (IH s' HD' HP') as (I1 & I2 & I3 & I4 & I5).
        cbn [r_st r_retry r_final]. split; [exact I1|]. split; [intros y Hy; apply I2; exact (Q_step s y x s' _ Dx HP E Hy)|]. split; [|split].
        * intros y [Hy|Hy]; [subst y; left; apply I2; exact (Q_succ s x s' Dx HP E)|now apply I3].
        * intros y c' Hy. right. eapply I4; eauto.
        * intros y c' Hy. right. eapply I5; eauto.
  Qed.

  Lemma loop_inv : forall f todo s fin, (length todo < f)%nat -> (forall x, In x todo -> Dom x) -> P s ->
    let r := loop try is_final f s todo fin in
    P (r_st r) /\ (forall x, Q x s -> Q x (r_st r)) /\
    (forall x, In x todo -> Q x (r_st r) \/ (exists c, In (x, c) (r_retry r)) \/ (exists c, In (x, c) (r_final r))) /\
    (forall x c, In (x, c) fin -> In (x, c) (r_final r)) /\
    (forall x c, In (x, c) (r_retry r) -> In x todo) /\ (forall x c, In (x, c) (r_final r) -> In (x, c) fin \/ In x todo).
  Proof.
    induction f as [|f IH]; intros todo s fin Hf HD HP; [lia|]. cbn [loop].
    pose proof (round_inv todo s HD HP) as R. cbn zeta in R. destruct R as (R1 & R2 & R3 & R4 & R5).
    destruct (r_prog (round try is_final s todo)) eqn:E.
    - pose proof (round_len s todo) as [_ L]. specialize (L E).
      assert (Hlen : (length (map fst (r_retry (round try is_final s todo))) < f)%nat) by (rewrite map_length; lia).
      assert (HD2 : forall y, In y (map fst (r_retry (round try is_final s todo))) -> Dom y).
      { intros y Hy. apply in_map_iff in Hy. destruct Hy as [[y' c'] [Hy1 Hy2]]. cbn in Hy1. subst y'. apply HD. eapply R4; eauto. }
      specialize (IH _ (r_st (round try is_final s todo)) (fin ++ r_final (round try is_final s todo)) Hlen HD2 R1). cbn zeta in IH.
      destruct IH as (J1 & J2 & J3 & J4 & J5 & J6).
      split; [exact J1|]. split; [intros x Hx; apply J2, R2, Hx|]. split; [|split; [|split]].
      + intros x Hx. destruct (R3 x Hx) as [H|[[c H]|[c H]]].
        * left. now apply J2.
        * apply J3. apply in_map_iff. exists (x, c). split; [reflexivity|exact H].
        * right. right. exists c. apply J4. apply in_or_app. now right.
      + intros x c Hx. apply J4. apply in_or_app. now left.
      + intros x c Hx. specialize (J5 x c Hx). apply in_map_iff in J5. destruct J5 as [[y c'] [Hy1 Hy2]]. cbn in Hy1. subst y. eapply R4; eauto.
      + intros x c Hx. destruct (J6 x c Hx) as [H|H].
        * apply in_app_or in H. destruct H as [H|H]; [now left|right; eapply R5; eauto].
        * right. apply in_map_iff in H. destruct H as [[y c'] [Hy1 Hy2]]. cbn in Hy1. subst y. eapply R4; eauto.
    - cbn [r_st r_retry r_final]. split; [exact R1|]. split; [exact R2|]. split; [|split; [|split]].
      + intros x Hx. destruct (R3 x Hx) as [H|[[c H]|[c H]]]; [now left|right; left; eauto|right; right; exists c; apply in_or_app; now right].
      + intros x c Hx. apply in_or_app. now left.
      + exact R4.
      + intros x c Hx. apply in_app_or in Hx. destruct Hx as [H|H]; [now left|right; eapply R5; eauto].
  Qed.
End RetryThm.

(* ------------------------------------------------------------------ one instruction list *)
Definition keys_le {A} (l l' : list (N * A)) : Prop := forall k, has l k = true -> has l' k = true.
Lemma keys_le_refl {A} (l : list (N * A)) : keys_le l l. Proof. intros k H; exact H. Qed.
Lemma keys_le_cons {A} (l : list (N * A)) k v : keys_le l ((k, v) :: l).
Proof. intros k' H. rewrite has_cons, H. apply orb_true_r. Qed.
Lemma keys_le_trans {A} (a b c : list (N * A)) : keys_le a b -> keys_le b c -> keys_le a c.
Proof. intros H1 H2 k H. apply H2, H1, H. Qed.

(* ext s s': s' knows at least what s knows *)
Definition ext (s s' : st) : Prop :=
  keys_le (s_cbr s) (s_cbr s') /\ keys_le (s_cbn s) (s_cbn s') /\ incl (s_deps s) (s_deps s') /\ incl (s_queue s) (s_queue s').
Lemma ext_refl s : ext s s.
Proof. repeat split; try apply keys_le_refl; apply incl_refl. Qed.
Lemma ext_trans a b c : ext a b -> ext b c -> ext a c.
Proof.
  intros (A1 & A2 & A3 & A4) (B1 & B2 & B3 & B4). repeat split.
  - eapply keys_le_trans; eauto. - eapply keys_le_trans; eauto. - eapply incl_tran; eauto. - eapply incl_tran; eauto.
Qed.

Ltac inc := let a := fresh "a" in let Ha := fresh "Ha" in
  intros a Ha; unfold add_deps; cbn [map app];
  first [exact Ha | right; exact Ha | apply in_or_app; right; exact Ha | apply in_or_app; left; exact Ha].

Lemma exec_op_frame cx s o s' r : exec_op cx s o = (s', r) ->
  s_cbr s' = s_cbr s /\ s_done s' = s_done s /\ keys_le (s_cbn s) (s_cbn s') /\ incl (s_deps s) (s_deps s') /\
  incl (s_queue s) (s_queue s').
Proof.
  intro H. destruct o; cbn [exec_op] in H.
  - inversion H; subst. repeat split; try apply keys_le_refl; apply incl_refl.
  - destruct (lookup (s_cbr s) t); inversion H; subst; cbn [s_cbr s_cbn s_deps s_queue s_done]; repeat split; try apply keys_le_refl; try apply incl_refl; inc.
  - destruct (lookup (s_cbr s) t) as [[e|]|]; try (inversion H; subst; repeat split; try apply keys_le_refl; apply incl_refl).
    destruct (mem t (s_done s)); inversion H; subst; cbn [s_cbr s_cbn s_deps s_queue s_done]; repeat split; try apply keys_le_refl; try apply incl_refl; inc.
  - inversion H; subst; cbn [s_cbr s_cbn s_deps s_queue s_done]. repeat split; try apply keys_le_refl; try apply incl_refl; inc.
  - destruct (has (s_cbn s) c); inversion H; subst; cbn [s_cbr s_cbn s_deps s_queue s_done]; repeat split; try apply keys_le_refl; try apply incl_refl;
      try apply keys_le_cons; inc.
  - destruct (lookup (s_cbn s) c) as [[|v']|].
    + inversion H; subst. repeat split; try apply keys_le_refl; apply incl_refl.
    + destruct (v' =? v); inversion H; subst; repeat split; try apply keys_le_refl; apply incl_refl.
    + inversion H; subst; cbn [s_cbr s_cbn s_deps s_queue s_done]. repeat split; try apply keys_le_refl; try apply incl_refl. apply keys_le_cons.
Qed.

Lemma exec_frame cx : forall p s s' r, exec cx s p = (s', r) ->
  s_cbr s' = s_cbr s /\ s_done s' = s_done s /\ keys_le (s_cbn s) (s_cbn s') /\ incl (s_deps s) (s_deps s') /\
  incl (s_queue s) (s_queue s').
Proof.
  induction p as [|i p IH]; intros s s' r H; cbn [exec] in H.
  - inversion H; subst. repeat split; try apply keys_le_refl; apply incl_refl.
  - destruct (exec_op cx s (i_op i)) as [s1 [c|]] eqn:E.
    + inversion H; subst. eapply exec_op_frame; eauto.
    + destruct (exec_op_frame _ _ _ _ _ E) as (A1 & A2 & A3 & A4 & A5).
      destruct (IH _ _ _ H) as (B1 & B2 & B3 & B4 & B5).
      repeat split; try congruence.
      * eapply keys_le_trans; eauto. * eapply incl_tran; eauto. * eapply incl_tran; eauto.
Qed.

(* what a list of instructions has established once it has run to the end *)
Definition prog_done (ents : list entry) (p : list instr) (s : st) : Prop :=
  (forall k t rs, In (k, t, rs) (prog_edges p) -> has (s_cbr s) t = true /\ forall x, In x rs -> In (t, x) (s_deps s)) /\
  (forall c, In c (prog_mints p) -> has (s_cbn s) c = true) /\
  (forall i c k e, In i p -> i_op i = OMintModel c (Some k) -> nth_error ents k = Some e ->
                   exists ow, In (mkQ ow (e_name e) e) (s_queue s)) /\
  (forall i r c, In i p -> i_op i = ODep r c -> In (r, RCls c) (s_deps s)).

Lemma prog_done_ext ents p s s' : ext s s' -> prog_done ents p s -> prog_done ents p s'.
Proof.
  intros (X1 & X2 & X3 & X4) (D1 & D2 & D3 & D4). repeat split.
  - apply X1. eapply D1; eauto.
  - intros x Hx. apply X3. eapply D1; eauto.
  - intros c Hc. apply X2, D2, Hc.
  - intros i c k e Hi Ho Hn. destruct (D3 i c k e Hi Ho Hn) as [ow H]. exists ow. apply X4, H.
  - intros i r c Hi Ho. apply X3. eapply D4; eauto.
Qed.

Lemma exec_op_done cx s o s' : exec_op cx s o = (s', None) ->
  (forall k t rs, In (k, t, rs) (op_edge o) -> has (s_cbr s') t = true /\ forall x, In x rs -> In (t, x) (s_deps s')) /\
  (forall c, In c (op_mints o) -> has (s_cbn s') c = true) /\
  (forall c k e, o = OMintModel c (Some k) -> nth_error (c_ents cx) k = Some e -> exists ow, In (mkQ ow (e_name e) e) (s_queue s')) /\
  (forall r c, o = ODep r c -> In (r, RCls c) (s_deps s')).
Proof.
  intro H. destruct o; cbn [exec_op] in H; cbn [op_edge op_mints].
  - discriminate.
  - destruct (lookup (s_cbr s) t) as [pl|] eqn:L; [|discriminate]. inversion H; subst; cbn.
    repeat split; try (intros; contradiction); try (intros; discriminate).
    + destruct H0 as [H0|[]]. inversion H0; subst. apply has_lookup. eauto.
    + intros x Hx. destruct H0 as [H0|[]]. inversion H0; subst. unfold add_deps. apply in_or_app. left. apply in_map_iff. eauto.
  - destruct (lookup (s_cbr s) t) as [[e|]|] eqn:L; try discriminate.
    destruct (mem t (s_done s)); [|discriminate]. inversion H; subst; cbn.
    repeat split; try (intros; contradiction); try (intros; discriminate).
    + destruct H0 as [H0|[]]. inversion H0; subst. apply has_lookup. eauto.
    + intros x Hx. destruct H0 as [H0|[]]. inversion H0; subst. unfold add_deps. apply in_or_app. left. apply in_map_iff. eauto.
  - inversion H; subst; cbn. repeat split; try (intros; contradiction); try (intros; discriminate).
    intros r0 c0 E. inversion E; subst. now left.
  - destruct (has (s_cbn s) c) eqn:Hc; [discriminate|]. inversion H; subst; cbn.
    repeat split; try (intros; contradiction); try (intros; discriminate).
    + intros c0 [E|[]]. subst. rewrite has_cons, N.eqb_refl. reflexivity.
    + intros c0 k e E Hn. inversion E; subst. unfold push_entry. rewrite Hn. eexists. apply in_or_app. right. left. reflexivity.
  - destruct (lookup (s_cbn s) c) as [[|v']|] eqn:L.
    + discriminate.
    + destruct (v' =? v); [|discriminate]. inversion H; subst.
      repeat split; try (intros; contradiction); try (intros; discriminate).
      intros c0 [E|[]]. subst. apply has_lookup. eauto.
    + inversion H; subst; cbn. repeat split; try (intros; contradiction); try (intros; discriminate).
      intros c0 [E|[]]. subst. rewrite has_cons, N.eqb_refl. reflexivity.
Qed.

Lemma exec_ext cx p s s' r : exec cx s p = (s', r) -> ext s s'.
Proof.
  intro H. destruct (exec_frame _ _ _ _ _ H) as (A1 & A2 & A3 & A4 & A5).
  repeat split; auto. rewrite A1. apply keys_le_refl.
Qed.
Lemma exec_op_ext cx o s s' r : exec_op cx s o = (s', r) -> ext s s'.
Proof.
  intro H. destruct (exec_op_frame _ _ _ _ _ H) as (A1 & A2 & A3 & A4 & A5).
  repeat split; auto. rewrite A1. apply keys_le_refl.
Qed.

Lemma exec_done cx : forall p s s', exec cx s p = (s', None) -> prog_done (c_ents cx) p s'.
Proof.
  induction p as [|i p IH]; intros s s' H; cbn [exec] in H.
  - repeat split; cbn; intros; contradiction.
  - destruct (exec_op cx s (i_op i)) as [s1 [c|]] eqn:E; [discriminate|].
    pose proof (exec_ext _ _ _ _ _ H) as X. destruct X as (X1 & X2 & X3 & X4).
    destruct (exec_op_done _ _ _ _ E) as (O1 & O2 & O3 & O4).
    destruct (IH _ _ H) as (D1 & D2 & D3 & D4).
    unfold prog_done, prog_edges, prog_mints. cbn [flat_map]. repeat split.
    + apply in_app_or in H0. destruct H0 as [H0|H0]; [apply X1; eapply O1; eauto|eapply D1; eauto].
    + intros x Hx. apply in_app_or in H0. destruct H0 as [H0|H0]; [apply X3; eapply O1; eauto|eapply D1; eauto].
    + intros c Hc. apply in_app_or in Hc. destruct Hc as [Hc|Hc]; [apply X2, O2, Hc|apply D2, Hc].
    + intros i0 c k e [Hi|Hi] Ho Hn.
      * subst i0. destruct (O3 c k e Ho Hn) as [ow Hq]. exists ow. apply X4, Hq.
      * eapply D3; eauto.
    + intros i0 r c [Hi|Hi] Ho.
      * subst i0. apply X3. eapply O4; eauto.
      * eapply D4; eauto.
Qed.

(* ------------------------------------------------------------------ _propogate_removal *)
Definition handled (x : root) (cbr : list (ref * payload)) (cbn : list (cls * cinfo)) : Prop :=
  match x with RRef r => has cbr r = false | RCls c => has cbn c = false end.

Lemma handled_le x cbr cbn cbr' cbn' : keys_le cbr' cbr -> keys_le cbn' cbn -> handled x cbr cbn -> handled x cbr' cbn'.
Proof.
  intros H1 H2. destruct x; cbn; intro H.
  - destruct (has cbr' r) eqn:E; [|reflexivity]. apply H1 in E. congruence.
  - destruct (has cbn' c) eqn:E; [|reflexivity]. apply H2 in E. congruence.
Qed.

Lemma in_children D r x : In x (children D r) <-> In (r, x) D.
Proof.
  unfold children. rewrite in_map_iff. split.
  - intros [[r' x'] [E H]]. cbn in E. subst x'. apply filter_In in H. destruct H as [H1 H2]. cbn in H2. apply N.eqb_eq in H2. now subst.
  - intro H. exists (r, x). split; [reflexivity|]. apply filter_In. split; [exact H|]. cbn. apply N.eqb_refl.
Qed.

Lemma children_length D r : (length (children D r) <= length D)%nat.
Proof.
  unfold children. rewrite map_length. induction D as [|a D IH]; [cbn; lia|].
  cbn [filter]. match goal with |- context[if ?b then _ else _] => destruct b end; cbn [length] in *; lia.
Qed.

Lemma keys_le_del {A} (l : list (N * A)) k : keys_le (del k l) l.
Proof. intros k' H. eapply has_del_le; eauto. Qed.

Lemma pot_step (a b k w c : nat) : (a < b)%nat -> (c <= k)%nat -> (c + w + a * S k < S w + b * S k)%nat.
Proof.
  intros H1 H2. assert (a * S k + S k <= b * S k)%nat.
  { replace (a * S k + S k)%nat with (S a * S k)%nat by lia. apply Nat.mul_le_mono_r. lia. }
  lia.
Qed.

(* T loops_terminate, removal part: any fuel above the potential gives the same result *)
Lemma remove_wl_fuel D : forall f1 f2 work cbr cbn acc,
  (length work + length cbr * S (length D) < f1)%nat -> (length work + length cbr * S (length D) < f2)%nat ->
  remove_wl f1 D work cbr cbn acc = remove_wl f2 D work cbr cbn acc.
Proof.
  induction f1 as [|f1 IH]; intros f2 work cbr cbn acc H1 H2; [lia|].
  destruct f2 as [|f2]; [lia|]. cbn [remove_wl].
  destruct work as [|[r|c] w]; [reflexivity| |].
  - destruct (has cbr r) eqn:E.
    + pose proof (pot_step _ _ (length D) (length w) _ (del_length_lt cbr r E) (children_length D r)).
      apply IH; rewrite app_length; cbn [length] in *; unfold ref, cls in *; lia.
    + apply IH; cbn [length] in *; lia.
  - apply IH; cbn [length] in *; lia.
Qed.

Lemma remove_wl_spec D : forall fuel work cbr cbn acc cbr' cbn' acc',
  (length work + length cbr * S (length D) < fuel)%nat ->
  remove_wl fuel D work cbr cbn acc = (cbr', cbn', acc') ->
  keys_le cbr' cbr /\ keys_le cbn' cbn /\
  (forall x, In x work -> handled x cbr' cbn') /\
  (forall r, has cbr r = true -> has cbr' r = false -> In r acc' /\ forall x, In (r, x) D -> handled x cbr' cbn') /\
  (forall r, In r acc -> In r acc') /\
  (forall r, In r acc' -> In r acc \/ (has cbr r = true /\ has cbr' r = false)) /\
  (forall c, has cbn c = true -> has cbn' c = false ->
             In (RCls c) work \/ exists r, has cbr r = true /\ has cbr' r = false /\ In (r, RCls c) D).
Proof.
  induction fuel as [|fuel IH]; intros work cbr cbn acc cbr' cbn' acc' Hf H; [lia|].
  cbn [remove_wl] in H. destruct work as [|[r|c] w].
  - inversion H; subst. repeat split; try apply keys_le_refl; try (intros; contradiction); try congruence; auto.
  - destruct (has cbr r) eqn:E.
    + pose proof (del_length_lt cbr r E) as L1. pose proof (children_length D r) as L2.
      pose proof (pot_step _ _ (length D) (length w) _ L1 L2) as L3.
      assert (Hf' : (length (children D r ++ w) + length (del r cbr) * S (length D) < fuel)%nat)
        by (rewrite app_length; cbn [length] in *; unfold ref, cls in *; lia).
      destruct (IH _ _ _ _ _ _ _ Hf' H) as (I1 & I2 & I3 & I4 & I5 & I6 & I7).
      assert (K1 : keys_le cbr' cbr) by (eapply keys_le_trans; [exact I1|apply keys_le_del]).
      assert (Hr : has cbr' r = false).
      { destruct (has cbr' r) eqn:E'; [|reflexivity]. apply I1 in E'. rewrite has_del_same in E'. discriminate. }
      split; [exact K1|]. split; [exact I2|]. split; [|split; [|split; [|split]]].
      * intros x [Hx|Hx]; [subst x; exact Hr|apply I3; apply in_or_app; now right].
      * intros r0 H0 H1. destruct (N.eq_dec r r0) as [->|Hne].
        -- split; [apply I5; apply in_or_app; right; now left|].
           intros x Hx. apply I3. apply in_or_app. left. now apply in_children.
        -- apply I4; [rewrite has_del_other; auto|exact H1].
      * intros r0 H0. apply I5. apply in_or_app. now left.
      * intros r0 H0. destruct (I6 r0 H0) as [H1|[H1 H2]].
        -- apply in_app_or in H1. destruct H1 as [H1|[H1|[]]]; [now left|subst r0; right; split; [exact E|exact Hr]].
        -- right. split; [eapply has_del_le; eauto|exact H2].
      * intros c Hc1 Hc2. destruct (I7 c Hc1 Hc2) as [H1|[r0 (H1 & H2 & H3)]].
        -- apply in_app_or in H1. destruct H1 as [H1|H1].
           ++ right. exists r. split; [exact E|]. split; [exact Hr|now apply in_children].
           ++ left. now right.
        -- right. exists r0. split; [eapply has_del_le; eauto|]. split; assumption.
    + assert (Hf' : (length w + length cbr * S (length D) < fuel)%nat) by (cbn [length] in *; lia).
      destruct (IH _ _ _ _ _ _ _ Hf' H) as (I1 & I2 & I3 & I4 & I5 & I6 & I7).
      split; [exact I1|]. split; [exact I2|]. split; [|split; [|split; [|split]]]; auto.
      * intros x [Hx|Hx]; [|now apply I3]. subst x. cbn. destruct (has cbr' r) eqn:E'; [|reflexivity]. apply I1 in E'. congruence.
      * intros c Hc1 Hc2. destruct (I7 c Hc1 Hc2) as [H1|H1]; [left; now right|now right].
  - assert (Hf' : (length w + length cbr * S (length D) < fuel)%nat) by (cbn [length] in *; lia).
    destruct (IH _ _ _ _ _ _ _ Hf' H) as (I1 & I2 & I3 & I4 & I5 & I6 & I7).
    assert (K2 : keys_le cbn' cbn) by (eapply keys_le_trans; [exact I2|apply keys_le_del]).
    split; [exact I1|]. split; [exact K2|]. split; [|split; [|split; [|split]]]; auto.
    + intros x [Hx|Hx]; [|now apply I3]. subst x. cbn. destruct (has cbn' c) eqn:E'; [|reflexivity]. apply I2 in E'.
      rewrite has_del_same in E'. discriminate.
    + intros c0 Hc1 Hc2. destruct (N.eq_dec c c0) as [->|Hne]; [left; now left|].
      destruct (I7 c0) as [H1|H1]; [rewrite has_del_other; auto|exact Hc2|left; now right|now right].
Qed.

Lemma remove_roots_spec D work cbr cbn cbr' cbn' acc' :
  remove_roots D work cbr cbn = (cbr', cbn', acc') ->
  keys_le cbr' cbr /\ keys_le cbn' cbn /\
  (forall x, In x work -> handled x cbr' cbn') /\
  (forall r, has cbr r = true -> has cbr' r = false -> In r acc' /\ forall x, In (r, x) D -> handled x cbr' cbn') /\
  (forall r, In r acc' -> has cbr r = true /\ has cbr' r = false) /\
  (forall c, has cbn c = true -> has cbn' c = false ->
             In (RCls c) work \/ exists r, has cbr r = true /\ has cbr' r = false /\ In (r, RCls c) D).
Proof.
  unfold remove_roots, remove_fuel. intro H.
  assert (Hf : (length work + length cbr * S (length D) < S (length work + length cbr * S (length D)))%nat) by lia.
  destruct (remove_wl_spec D _ _ _ _ _ _ _ _ Hf H) as (I1 & I2 & I3 & I4 & I5 & I6 & I7).
  repeat split; auto; try (apply I4; assumption).
  - destruct (I6 r H0) as [[]|[A B]]. exact A.
  - destruct (I6 r H0) as [[]|[A B]]. exact B.
Qed.

Lemma model_errors_spec D : forall mes cbr cbn cbrF cbnF es,
  model_errors D mes cbr cbn = (cbrF, cbnF, es) ->
  keys_le cbrF cbr /\ keys_le cbnF cbn /\
  (forall q c x, In (q, c) mes -> In x (e_roots (q_entry q)) -> handled x cbrF cbnF) /\
  (forall r, has cbr r = true -> has cbrF r = false ->
             (exists e, In e es /\ In r (er_removed e)) /\ forall x, In (r, x) D -> handled x cbrF cbnF) /\
  (forall q c, In (q, c) mes -> exists e, In e es /\ er_create e = false /\ er_unit e = q_name q /\ er_cat e = c /\
                                          er_roots e = e_roots (q_entry q)) /\
  (forall e, In e es -> er_create e = false /\
                        (exists q c, In (q, c) mes /\ er_unit e = q_name q /\ er_roots e = e_roots (q_entry q) /\ er_cat e = c) /\
                        forall r, In r (er_removed e) -> has cbr r = true /\ has cbrF r = false) /\
  (forall c, has cbn c = true -> has cbnF c = false ->
             (exists q cat, In (q, cat) mes /\ In (RCls c) (e_roots (q_entry q))) \/
             exists r, has cbr r = true /\ has cbrF r = false /\ In (r, RCls c) D).
Proof.
  induction mes as [|[q c] mes IH]; intros cbr cbn cbrF cbnF es H; cbn [model_errors] in H.
  - inversion H; subst. repeat split; try apply keys_le_refl; try (intros; contradiction); try congruence.
  - destruct (remove_roots D (e_roots (q_entry q)) cbr cbn) as [[cbr1 cbn1] acc] eqn:R.
    destruct (model_errors D mes cbr1 cbn1) as [[cbr2 cbn2] es2] eqn:M. inversion H; subst. clear H.
    destruct (remove_roots_spec _ _ _ _ _ _ _ R) as (R1 & R2 & R3 & R4 & R5 & R6).
    destruct (IH _ _ _ _ _ M) as (I1 & I2 & I3 & I4 & I5 & I6 & I7).
    assert (K1 : keys_le cbrF cbr) by (eapply keys_le_trans; eauto).
    assert (K2 : keys_le cbnF cbn) by (eapply keys_le_trans; eauto).
    split; [exact K1|]. split; [exact K2|]. split; [|split; [|split; [|split]]].
    + intros q0 c0 x [E|Hin] Hx.
      * inversion E; subst. eapply handled_le; [exact I1|exact I2|]. apply R3, Hx.
      * eapply I3; eauto.
    + intros r Hr1 Hr2. destruct (has cbr1 r) eqn:E1.
      * destruct (I4 r E1 Hr2) as [[e [He1 He2]] Hc]. split; [exists e; split; [now right|exact He2]|exact Hc].
      * destruct (R4 r Hr1 E1) as [Ha Hc]. split.
        -- eexists. split; [now left|]. exact Ha.
        -- intros x Hx. eapply handled_le; [exact I1|exact I2|]. now apply Hc.
    + intros q0 c0 [E|Hin].
      * inversion E; subst. eexists. split; [now left|]. cbn. repeat split; reflexivity.
      * destruct (I5 q0 c0 Hin) as [e [He1 He2]]. exists e. split; [now right|exact He2].
    + intros e [E|Hin].
      * subst e. cbn. split; [reflexivity|]. split.
        -- exists q, c. split; [now left|]. repeat split; reflexivity.
        -- intros r Hr. destruct (R5 r Hr) as [A B]. split; [exact A|].
           destruct (has cbrF r) eqn:E'; [|reflexivity]. apply I1 in E'. congruence.
      * destruct (I6 e Hin) as (A & [q0 [c0 (B1 & B2)]] & C). split; [exact A|]. split.
        -- exists q0, c0. split; [now right|exact B2].
        -- intros r Hr. destruct (C r Hr) as [C1 C2]. split; [apply R1, C1|exact C2].
    + intros c0 Hc1 Hc2. destruct (has cbn1 c0) eqn:E1.
      * destruct (I7 c0 E1 Hc2) as [[q0 [cat (A & B)]]|[r (A & B & C)]].
        -- left. exists q0, cat. split; [now right|exact B].
        -- right. exists r. split; [apply R1, A|]. split; assumption.
      * destruct (R6 c0 Hc1 E1) as [A|[r (A & B & C)]].
        -- left. exists q, c. split; [now left|exact A].
        -- right. exists r. split; [exact A|]. split; [|exact C].
           destruct (has cbrF r) eqn:E'; [|reflexivity]. apply I1 in E'. congruence.
Qed.

(* ------------------------------------------------------------------ one attempt on a component / on a queued model *)
Lemma create_try_ext s n s' r : create_try s n = (s', r) -> ext s s'.
Proof.
  unfold create_try. destruct (exec (ctx_of n) s (n_create n)) as [s1 [c|]] eqn:E; intro H; inversion H; subst; clear H.
  - destruct (exec_ext _ _ _ _ _ E) as (X1 & X2 & X3 & X4). unfold revert. repeat split; cbn; try apply keys_le_refl; auto. apply incl_refl.
  - destruct (exec_ext _ _ _ _ _ E) as (X1 & X2 & X3 & X4). repeat split; cbn; auto.
    eapply keys_le_trans; [exact X1|apply keys_le_cons].
Qed.

Lemma create_try_fail s n s' c : create_try s n = (s', Some c) -> s_cbr s' = s_cbr s /\ s_cbn s' = s_cbn s /\ s_queue s' = s_queue s.
Proof.
  unfold create_try. destruct (exec (ctx_of n) s (n_create n)) as [s1 [c1|]] eqn:E; intro H; inversion H; subst. cbn. auto.
Qed.

Lemma create_try_succ s n s' : create_try s n = (s', None) ->
  (exists pl, s_cbr s' = (n_ref n, pl) :: s_cbr s) /\ prog_done (n_entries n) (n_create n) s'.
Proof.
  unfold create_try. destruct (exec (ctx_of n) s (n_create n)) as [s1 [c1|]] eqn:E; intro H; inversion H; subst; clear H.
  destruct (exec_frame _ _ _ _ _ E) as (A1 & _). cbn [s_cbr]. split; [rewrite A1; eauto|].
  eapply prog_done_ext; [|exact (exec_done _ _ _ _ E)].
  repeat split; cbn; try apply keys_le_refl; try apply incl_refl. apply keys_le_cons.
Qed.

Lemma proc_try_frame s q s' r : proc_try s q = (s', r) -> s_cbr s' = s_cbr s /\ s_queue s' = s_queue s /\ ext s s'.
Proof.
  unfold proc_try. destruct (exec ctx_proc s (e_prog (q_entry q))) as [s1 [c|]] eqn:E; intro H; inversion H; subst; clear H;
    destruct (exec_frame _ _ _ _ _ E) as (A1 & A2 & A3 & A4 & A5); cbn.
  - repeat split; cbn; try apply keys_le_refl; auto. apply incl_refl.
  - repeat split; cbn; auto; try apply incl_refl. rewrite A1. apply keys_le_refl.
Qed.

Lemma prog_done_nil_frame p s s' : s_cbr s' = s_cbr s -> s_cbn s' = s_cbn s -> s_deps s' = s_deps s ->
  prog_done [] p s -> prog_done [] p s'.
Proof.
  intros E1 E2 E3 (D1 & D2 & D3 & D4). unfold prog_done. rewrite E1, E2, E3. repeat split; eauto.
  - eapply D1; eauto. - eapply D1; eauto.
  - intros i c k e _ _ Hn. destruct k; discriminate.
Qed.

Lemma prog_done_drop_ents ents p s : prog_done ents p s -> prog_done [] p s.
Proof.
  intros (D1 & D2 & D3 & D4). repeat split; eauto; try (eapply D1; eauto).
  intros i c k e _ _ Hn. destruct k; discriminate.
Qed.

Lemma proc_try_succ s q s' : proc_try s q = (s', None) -> prog_done [] (e_prog (q_entry q)) s'.
Proof.
  unfold proc_try. destruct (exec ctx_proc s (e_prog (q_entry q))) as [s1 [c|]] eqn:E; intro H; inversion H; subst; clear H.
  eapply prog_done_nil_frame; [| | |exact (exec_done _ _ _ _ E)]; reflexivity.
Qed.

Lemma nodup_n_spec l : nodup_n l = true -> NoDup l.
Proof.
  induction l as [|x l IH]; cbn [nodup_n]; intro H; [constructor|].
  apply andb_true_iff in H. destruct H as [H1 H2]. constructor; [|now apply IH].
  intro Hin. apply mem_in in Hin. rewrite Hin in H1. discriminate.
Qed.

Lemma ref_inj (g : graph) n m : NoDup (map n_ref g) -> In n g -> In m g -> n_ref n = n_ref m -> n = m.
Proof.
  induction g as [|a g IH]; cbn [map]; intros Hnd Hn Hm E; [contradiction|].
  inversion Hnd as [|? ? Hni Hnd']; subst.
  destruct Hn as [Hn|Hn], Hm as [Hm|Hm]; subst; auto.
  - exfalso. apply Hni. rewrite E. now apply in_map.
  - exfalso. apply Hni. rewrite <- E. now apply in_map.
Qed.

(* ------------------------------------------------------------------ the create phase *)
Definition inv_create (g : graph) (s : st) : Prop :=
  forall n, In n g -> has (s_cbr s) (n_ref n) = true -> prog_done (n_entries n) (n_create n) s.

Lemma create_todo_in g n : In n (create_todo g) -> In n g.
Proof. unfold create_todo. intro H. apply filter_In in H. tauto. Qed.

Lemma create_phase_spec g : NoDup (map n_ref g) ->
  inv_create g (r_st (create_loop g)) /\
  (forall n, In n (create_todo g) -> has (s_cbr (r_st (create_loop g))) (n_ref n) = true \/ exists c, In (n, c) (r_retry (create_loop g))).
Proof.
  intro Hnd. unfold create_loop, run_loop.
  pose proof (loop_inv create_try no_final (inv_create g) (fun n s => has (s_cbr s) (n_ref n) = true) (fun n => In n g)) as L.
  assert (P_step : forall s x s' r, In x g -> inv_create g s -> create_try s x = (s', r) -> inv_create g s').
  { intros s x s' r Hx HI Ht n Hn Hh. pose proof (create_try_ext _ _ _ _ Ht) as X. destruct r as [c|].
    - destruct (create_try_fail _ _ _ _ Ht) as (E1 & _). rewrite E1 in Hh. eapply prog_done_ext; [exact X|]. now apply HI.
    - destruct (create_try_succ _ _ _ Ht) as [[pl E1] Hd]. rewrite E1, has_cons in Hh. apply orb_true_iff in Hh.
      destruct Hh as [Hh|Hh].
      + apply N.eqb_eq in Hh. assert (x = n) by (eapply ref_inj; eauto). subst x. exact Hd.
      + eapply prog_done_ext; [exact X|]. now apply HI. }
  assert (Q_step : forall s x y s' r, In y g -> inv_create g s -> create_try s y = (s', r) ->
                                      has (s_cbr s) (n_ref x) = true -> has (s_cbr s') (n_ref x) = true).
  { intros s x y s' r _ _ Ht Hh. destruct (create_try_ext _ _ _ _ Ht) as (X1 & _). now apply X1. }
  assert (Q_succ : forall s x s', In x g -> inv_create g s -> create_try s x = (s', None) -> has (s_cbr s') (n_ref x) = true).
  { intros s x s' _ _ Ht. destruct (create_try_succ _ _ _ Ht) as [[pl E1] _]. rewrite E1, has_cons, N.eqb_refl. reflexivity. }
  specialize (L P_step Q_step Q_succ (S (length (create_todo g))) (create_todo g) st0 []).
  assert (H0 : inv_create g st0) by (intros n _ Hh; unfold st0, has in Hh; cbn in Hh; discriminate).
  specialize (L (Nat.lt_succ_diag_r _) (create_todo_in g) H0). cbn zeta in L.
  destruct L as (L1 & L2 & L3 & L4 & L5 & L6). split; [exact L1|].
  intros n Hn. destruct (L3 n Hn) as [H|[H|[c H]]]; [now left|now right|].
  destruct (L6 n c H) as [[]|H']. exfalso.
  (* no_final never makes an error final *)
  clear - H. revert H. generalize (S (length (create_todo g))) as f. generalize (create_todo g) as todo. generalize st0 as s.
  assert (R : forall todo s, r_final (round create_try no_final s todo) = []).
  { induction todo as [|x t IH]; intro s; cbn [round]; [reflexivity|].
    destruct (create_try s x) as [s' [c'|]]; cbn [no_final r_final]; apply IH. }
  assert (Lp : forall f s todo fin, r_final (loop create_try no_final f s todo fin) = fin).
  { induction f as [|f IH]; intros s todo fin; cbn [loop]; [reflexivity|].
    destruct (r_prog (round create_try no_final s todo)); [rewrite IH|cbn [r_final]]; rewrite R; apply app_nil_r. }
  intros s todo f. rewrite Lp. intros [].
Qed.

(* without any assumption on the graph: every pending component is created or carries an error of the last round *)
Lemma create_phase_account g n : In n (create_todo g) ->
  has (s_cbr (r_st (create_loop g))) (n_ref n) = true \/ exists c, In (n, c) (r_retry (create_loop g)).
Proof.
  intro Hn. unfold create_loop, run_loop.
  pose proof (loop_inv create_try no_final (fun _ => True) (fun n s => has (s_cbr s) (n_ref n) = true) (fun _ => True)) as L.
  assert (P_step : forall (s : st) (x : node) (s' : st) (r : option N), True -> (fun _ : st => True) s -> create_try s x = (s', r) -> (fun _ : st => True) s') by auto.
  assert (Q_step : forall s x y s' r, True -> True -> create_try s y = (s', r) ->
                                      has (s_cbr s) (n_ref x) = true -> has (s_cbr s') (n_ref x) = true).
  { intros s x y s' r _ _ Ht Hh. destruct (create_try_ext _ _ _ _ Ht) as (X1 & _). now apply X1. }
  assert (Q_succ : forall s x s', True -> True -> create_try s x = (s', None) -> has (s_cbr s') (n_ref x) = true).
  { intros s x s' _ _ Ht. destruct (create_try_succ _ _ _ Ht) as [[pl E1] _]. rewrite E1, has_cons, N.eqb_refl. reflexivity. }
  specialize (L P_step Q_step Q_succ (S (length (create_todo g))) (create_todo g) st0 [] (Nat.lt_succ_diag_r _) (fun _ _ => I) I).
  cbn zeta in L. destruct L as (_ & _ & L3 & _ & _ & L6).
  destruct (L3 n Hn) as [H|[H|[c H]]]; [now left|now right|].
  exfalso. revert H. generalize (S (length (create_todo g))) as f. generalize (create_todo g) as todo. generalize st0 as s.
  assert (R : forall todo s, r_final (round create_try no_final s todo) = []).
  { induction todo as [|x t IH]; intro s; cbn [round]; [reflexivity|].
    destruct (create_try s x) as [s' [c'|]]; cbn [no_final r_final]; apply IH. }
  assert (Lp : forall f s todo fin, r_final (loop create_try no_final f s todo fin) = fin).
  { induction f as [|f IH]; intros s todo fin; cbn [loop]; [reflexivity|].
    destruct (r_prog (round create_try no_final s todo)); [rewrite IH|cbn [r_final]]; rewrite R; apply app_nil_r. }
  intros s todo f. rewrite Lp. intros [].
Qed.

(* ------------------------------------------------------------------ the process phase *)
Lemma process_phase_spec s1 :
  s_cbr (r_st (process_loop s1)) = s_cbr s1 /\ ext s1 (r_st (process_loop s1)) /\
  (forall q, In q (s_queue s1) ->
     prog_done [] (e_prog (q_entry q)) (r_st (process_loop s1)) \/
     (exists c, In (q, c) (r_retry (process_loop s1))) \/ (exists c, In (q, c) (r_final (process_loop s1)))) /\
  (forall q c, In (q, c) (r_retry (process_loop s1)) -> In q (s_queue s1)) /\
  (forall q c, In (q, c) (r_final (process_loop s1)) -> In q (s_queue s1)).
Proof.
  unfold process_loop, run_loop.
  pose proof (loop_inv proc_try is_rec (fun s => s_cbr s = s_cbr s1 /\ ext s1 s)
                (fun q s => prog_done [] (e_prog (q_entry q)) s) (fun _ => True)) as L.
  assert (P_step : forall s x s' r, True -> (s_cbr s = s_cbr s1 /\ ext s1 s) -> proc_try s x = (s', r) -> (s_cbr s' = s_cbr s1 /\ ext s1 s')).
  { intros s x s' r _ [E X] Ht. destruct (proc_try_frame _ _ _ _ Ht) as (A1 & A2 & A3). split; [congruence|eapply ext_trans; eauto]. }
  assert (Q_step : forall s (x y : qitem) s' r, True -> (s_cbr s = s_cbr s1 /\ ext s1 s) -> proc_try s y = (s', r) ->
             prog_done [] (e_prog (q_entry x)) s -> prog_done [] (e_prog (q_entry x)) s').
  { intros s x y s' r _ _ Ht Hd. destruct (proc_try_frame _ _ _ _ Ht) as (A1 & A2 & A3). eapply prog_done_ext; [exact A3|exact Hd]. }
  assert (Q_succ : forall s x s', True -> (s_cbr s = s_cbr s1 /\ ext s1 s) -> proc_try s x = (s', None) -> prog_done [] (e_prog (q_entry x)) s').
  { intros s x s' _ _ Ht. exact (proc_try_succ _ _ _ Ht). }
  specialize (L P_step Q_step Q_succ (S (length (s_queue s1))) (s_queue s1) s1 [] (Nat.lt_succ_diag_r _) (fun _ _ => I)
                (conj eq_refl (ext_refl s1))).
  cbn zeta in L. destruct L as ((L1a & L1b) & L2 & L3 & L4 & L5 & L6).
  split; [exact L1a|]. split; [exact L1b|]. split; [exact L3|]. split; [exact L5|].
  intros q c H. destruct (L6 q c H) as [[]|H']. exact H'.
Qed.

(* ------------------------------------------------------------------ T accounting (C07, schema part), for ALL graphs:
   every component of the document is a survivor, or a diagnostic names it (as the unit that could not be parsed, or in the
   removal list of the error whose cascade deleted it) *)
Theorem accounting g n : In n g ->
  has (res_cbr (build_schemas g)) (n_ref n) = true \/
  exists e, In e (res_errs (build_schemas g)) /\ ((er_create e = true /\ er_unit e = n_ref n) \/ In (n_ref n) (er_removed e)).
Proof.
  intro Hn. unfold build_schemas.
  destruct (model_errors _ _ _ _) as [[cbrF cbnF] es] eqn:M. cbn [res_cbr res_errs].
  destruct (model_errors_spec _ _ _ _ _ _ _ M) as (M1 & M2 & M3 & M4 & M5 & M6 & M7).
  destruct (process_phase_spec (r_st (create_loop g))) as (P1 & P2 & P3 & P4 & P5).
  destruct (n_isref n) eqn:Eref.
  - right. exists (mkErr true (n_ref n) cat_reference_schema [] []). split; [|left; split; reflexivity].
    apply in_or_app. left. unfold create_errs. apply in_or_app. left. unfold ref_errs.
    apply in_map_iff. exists n. split; [reflexivity|]. apply filter_In. split; assumption.
  - assert (Ht : In n (create_todo g)) by (unfold create_todo; apply filter_In; split; [exact Hn|now rewrite Eref]).
    destruct (create_phase_account g n Ht) as [Hc|[c Hc]].
    + rewrite <- P1 in Hc. destruct (has cbrF (n_ref n)) eqn:EF; [now left|].
      destruct (M4 _ Hc EF) as [[e [He1 He2]] _]. right. exists e. split; [apply in_or_app; now right|now right].
    + right. exists (mkErr true (n_ref n) c [] []). split; [|left; split; reflexivity].
      apply in_or_app. left. unfold create_errs. apply in_or_app. right.
      apply in_map_iff. exists (n, c). split; [reflexivity|exact Hc].
Qed.

(* ------------------------------------------------------------------ well-formedness, unpacked *)
Lemma pushes_spec p k c : pushes p k c = true -> exists i, In i p /\ i_op i = OMintModel c (Some k).
Proof.
  unfold pushes. rewrite existsb_exists. intros [i [Hi H]]. exists i. split; [exact Hi|].
  destruct (i_op i) as [| | | |c' [k'|]|]; try discriminate. apply andb_true_iff in H. destruct H as [H1 H2].
  apply Nat.eqb_eq in H1. apply N.eqb_eq in H2. now subst.
Qed.

Lemma entries_pushed_spec p : forall es k, entries_pushed p k es = true ->
  forall j e, nth_error es j = Some e -> exists i, In i p /\ i_op i = OMintModel (e_cls e) (Some (k + j)%nat).
Proof.
  induction es as [|e0 es IH]; intros k H j e Hn; [destruct j; discriminate|].
  cbn [entries_pushed] in H. apply andb_true_iff in H. destruct H as [H1 H2]. destruct j as [|j]; cbn [nth_error] in Hn.
  - inversion Hn; subst. rewrite Nat.add_0_r. now apply pushes_spec.
  - destruct (IH _ H2 _ _ Hn) as [i [Hi Ho]]. exists i. split; [exact Hi|]. rewrite Ho. f_equal. f_equal. lia.
Qed.

Lemma wf_node_pushed n e : wf_node n = true -> In e (n_entries n) ->
  exists i k, In i (n_create n) /\ i_op i = OMintModel (e_cls e) (Some k) /\ nth_error (n_entries n) k = Some e.
Proof.
  unfold wf_node. intros H He. apply andb_true_iff in H. destruct H as [H _]. apply andb_true_iff in H. destruct H as [H _].
  destruct (In_nth_error _ _ He) as [j Hj].
  destruct (entries_pushed_spec _ _ _ H _ _ Hj) as [i [Hi Ho]]. exists i, j. auto.
Qed.

Lemma roots_self_spec r rs r' : roots_self r rs = true -> In (RRef r') rs -> r' = r.
Proof.
  unfold roots_self. rewrite forallb_forall. intros H Hin. specialize (H _ Hin). cbn in H. now apply N.eqb_eq in H.
Qed.

Lemma wf_node_entry_self n e r : wf_node n = true -> In e (n_entries n) -> In (RRef r) (e_roots e) -> r = n_ref n.
Proof.
  unfold wf_node. intros H He Hr. apply andb_true_iff in H. destruct H as [_ H]. rewrite forallb_forall in H.
  specialize (H _ He). apply andb_true_iff in H. destruct H as [H _]. eapply roots_self_spec; eauto.
Qed.

Lemma wf_graph_spec g : wf_graph g = true -> NoDup (map n_ref g) /\ forall n, In n g -> wf_node n = true.
Proof.
  unfold wf_graph. intro H. apply andb_true_iff in H. destruct H as [H1 H2]. split; [now apply nodup_n_spec|].
  now apply forallb_forall.
Qed.

Lemma guard_spec g : g_no_union_edge_to_failing g = true ->
  (forall n, In n g -> forall e, In e (node_edges n) ->
     recorded n e = true \/ has (res_cbr (build_schemas g)) (snd (fst e)) = true) /\
  (forall x, In x (res_errs (build_schemas g)) -> er_create x = true \/ exists r, In (RRef r) (er_roots x)).
Proof.
  unfold g_no_union_edge_to_failing. cbn zeta. intro H. apply andb_true_iff in H. destruct H as [H1 H2]. split.
  - intros n Hn e He. rewrite forallb_forall in H1. specialize (H1 _ Hn). rewrite forallb_forall in H1. specialize (H1 _ He).
    now apply orb_true_iff in H1.
  - intros x Hx. rewrite forallb_forall in H2. specialize (H2 _ Hx). apply orb_true_iff in H2. destruct H2 as [H2|H2]; [now left|right].
    apply existsb_exists in H2. destruct H2 as [[r|c] [Hr1 Hr2]]; [eauto|discriminate].
Qed.

(* ------------------------------------------------------------------ everything the three phases establish, in one place *)
Lemma build_facts g :
  let R := build_schemas g in
  let s1 := r_st (create_loop g) in
  let pl := process_loop s1 in
  let s2 := r_st pl in
  let mes := r_final pl ++ r_retry pl in
  exists es, res_errs R = create_errs g ++ es /\ res_deps R = s_deps s2 /\
    keys_le (res_cbr R) (s_cbr s2) /\ keys_le (res_cbn R) (s_cbn s2) /\
    (forall q c x, In (q, c) mes -> In x (e_roots (q_entry q)) -> handled x (res_cbr R) (res_cbn R)) /\
    (forall r, has (s_cbr s2) r = true -> has (res_cbr R) r = false ->
               (exists e, In e es /\ In r (er_removed e)) /\ forall x, In (r, x) (s_deps s2) -> handled x (res_cbr R) (res_cbn R)) /\
    (forall q c, In (q, c) mes -> exists e, In e es /\ er_create e = false /\ er_unit e = q_name q /\ er_cat e = c /\
                                            er_roots e = e_roots (q_entry q)) /\
    (forall e, In e es -> er_create e = false /\
                 (exists q c, In (q, c) mes /\ er_unit e = q_name q /\ er_roots e = e_roots (q_entry q) /\ er_cat e = c) /\
                 forall r, In r (er_removed e) -> has (s_cbr s2) r = true /\ has (res_cbr R) r = false) /\
    (forall c, has (s_cbn s2) c = true -> has (res_cbn R) c = false ->
               (exists q cat, In (q, cat) mes /\ In (RCls c) (e_roots (q_entry q))) \/
               exists r, has (s_cbr s2) r = true /\ has (res_cbr R) r = false /\ In (r, RCls c) (s_deps s2)).
Proof.
  cbn zeta. unfold build_schemas. destruct (model_errors _ _ _ _) as [[cbrF cbnF] es] eqn:M. cbn [res_cbr res_cbn res_errs res_deps].
  destruct (model_errors_spec _ _ _ _ _ _ _ M) as (M1 & M2 & M3 & M4 & M5 & M6 & M7).
  exists es. split; [reflexivity|]. split; [reflexivity|]. split; [exact M1|]. split; [exact M2|].
  split; [exact M3|]. split; [exact M4|]. split; [exact M5|]. split; [exact M6|exact M7].
Qed.

(* ------------------------------------------------------------------ T removal_closed (C08): under the guard, every reference
   in the description of a surviving component (in its create instructions or in the instructions of any model class it gives
   rise to: items, wrappers, union members, properties, additionalProperties, allOf parents) points at a survivor *)
Theorem removal_closed g : wf_graph g = true -> g_no_union_edge_to_failing g = true ->
  forall n, In n g -> has (res_cbr (build_schemas g)) (n_ref n) = true ->
  forall e, In e (node_edges n) -> has (res_cbr (build_schemas g)) (snd (fst e)) = true.
Proof.
  intros Hwf Hg n Hn Hs e He.
  destruct (wf_graph_spec _ Hwf) as [Hnd Hwn]. destruct (guard_spec _ Hg) as [G1 G2].
  destruct (build_facts g) as [es (F1 & F2 & F3 & F4 & F5 & F6 & F7 & F8 & F9)]. cbn zeta in *.
  set (R := build_schemas g) in *. set (s1 := r_st (create_loop g)) in *. set (pl := process_loop s1) in *. set (s2 := r_st pl) in *.
  destruct (create_phase_spec g Hnd) as [IC _]. fold s1 in IC.
  destruct (process_phase_spec s1) as (P1 & P2 & P3 & P4 & P5). fold pl in P1, P2, P3, P4, P5. fold s2 in P1, P2, P3.
  assert (Hs1 : has (s_cbr s1) (n_ref n) = true) by (rewrite <- P1; apply F3, Hs).
  destruct e as [[k t] rs]. cbn [fst snd].
  (* it is enough that the edge was executed against the state before the removals *)
  assert (Hexec : has (s_cbr s2) t = true /\ forall x, In x rs -> In (t, x) (s_deps s2)).
  { unfold node_edges in He. apply in_app_or in He. destruct He as [He|He].
    - destruct (IC n Hn Hs1) as (D1 & _). destruct (D1 _ _ _ He) as [A B]. destruct P2 as (X1 & X2 & X3 & X4).
      split; [now apply X1|intros x Hx; now apply X3, B].
    - apply in_flat_map in He. destruct He as [en [Hen He]].
      destruct (wf_node_pushed n en (Hwn n Hn) Hen) as [i [j (Hi & Ho & Hj)]].
      destruct (IC n Hn Hs1) as (_ & _ & D3 & _). destruct (D3 i _ _ _ Hi Ho Hj) as [ow Hq].
      destruct (P3 _ Hq) as [Hd|Herr].
      + destruct Hd as (D1 & _). cbn [q_entry] in D1. exact (D1 _ _ _ He).
      + exfalso.
        assert (Hm : exists c, In (mkQ ow (e_name en) en, c) (r_final pl ++ r_retry pl)).
        { destruct Herr as [[c H]|[c H]]; exists c; apply in_or_app; [now right|now left]. }
        destruct Hm as [c Hm]. destruct (F7 _ _ Hm) as [er (E1 & E2 & E3 & E4 & E5)]. cbn [q_entry] in E5.
        assert (Hin : In er (res_errs R)) by (rewrite F1; apply in_or_app; now right).
        destruct (G2 er Hin) as [Hc|[r Hr]]; [congruence|].
        rewrite E5 in Hr. pose proof (wf_node_entry_self n en r (Hwn n Hn) Hen Hr) as ->.
        specialize (F5 _ _ _ Hm Hr). cbn in F5. congruence. }
  destruct Hexec as [Ht Hrec].
  destruct (G1 n Hn (k, t, rs) He) as [Hr|Hr]; [|exact Hr].
  destruct (has (res_cbr R) t) eqn:Et; [reflexivity|exfalso].
  destruct (F6 t Ht Et) as [_ Hc]. unfold recorded in Hr. cbn [snd] in Hr. apply mem_root_in in Hr.
  specialize (Hc _ (Hrec _ Hr)). cbn in Hc. congruence.
Qed.

(* ------------------------------------------------------------------ T loops_terminate (C06/C08): the fuel the model gives each of
   the three loops suffices for EVERY graph: more fuel never changes the result, and both retry loops end in a round that made
   no progress (never by exhausting the fuel) *)
Theorem loops_terminate g :
  (forall k, loop create_try no_final (S (length (create_todo g)) + k) st0 (create_todo g) [] = create_loop g) /\
  (forall s k, loop proc_try is_rec (S (length (s_queue s)) + k) s (s_queue s) [] = process_loop s) /\
  (forall D work cbr cbn k, remove_wl (remove_fuel D work cbr + k) D work cbr cbn [] = remove_roots D work cbr cbn) /\
  r_prog (create_loop g) = false /\ (forall s, r_prog (process_loop s) = false).
Proof.
  split; [|split; [|split; [|split]]].
  - intro k. unfold create_loop, run_loop. apply loop_fuel; lia.
  - intros s k. unfold process_loop, run_loop. apply loop_fuel; lia.
  - intros D work cbr cbn k. unfold remove_roots, remove_fuel. apply remove_wl_fuel; lia.
  - unfold create_loop, run_loop. apply loop_exit. lia.
  - intro s. unfold process_loop, run_loop. apply loop_exit. lia.
Qed.

(* ------------------------------------------------------------------ R union_dependency_unrecorded (C08): the guard cannot be dropped.
   (The graph below is what the abstraction produced for the tree BEFORE the fix 204aaa6, which hands `roots` through
   UnionProperty.build; since then the abstraction emits recorded union-member edges and this shape no longer arises from a document.)
   A = object with a property that is an array without items (fails in process_model), U = anyOf[$ref A, string],
   M = object { u: $ref U }.  A is removed; U and M survive; U's description refers to A.  (ids: A=1 U=2 M=3) *)
Definition witness_union : graph :=
  [mkN 1 false (TModel 0%nat) [mkI (OMintModel 1 (Some 0%nat)) 0] [mkE 1 1 [RRef 1; RCls 1] [mkI (OFail 1) 0]];
   mkN 2 false TOther [mkI (ONeed EUnion 1 [] 0 false) 10] [];
   mkN 3 false (TModel 0%nat) [mkI (OMintModel 2 (Some 0%nat)) 0] [mkE 3 2 [RRef 3; RCls 2] [mkI (ONeed EProp 2 [RRef 3; RCls 2] 0 false) 0]]].

Theorem union_dependency_unrecorded_refuted :
  exists g, wf_graph g = true /\ g_no_name_pressure g = true /\ g_no_union_edge_to_failing g = false /\
    exists n e, In n g /\ has (res_cbr (build_schemas g)) (n_ref n) = true /\ In e (node_edges n) /\
                has (res_cbr (build_schemas g)) (snd (fst e)) = false.
Proof.
  exists witness_union. split; [vm_compute; reflexivity|]. split; [vm_compute; reflexivity|]. split; [vm_compute; reflexivity|].
  exists (mkN 2 false TOther [mkI (ONeed EUnion 1 [] 0 false) 10] []), (EUnion, 1, []).
  split; [right; left; reflexivity|]. split; [vm_compute; reflexivity|]. split; [left; reflexivity|vm_compute; reflexivity].
Qed.

(* the same shape through an `items` edge cascades: the guard holds, A, L and N are all removed with one diagnostic *)
Definition witness_item : graph :=
  [mkN 1 false (TModel 0%nat) [mkI (OMintModel 1 (Some 0%nat)) 0] [mkE 1 1 [RRef 1; RCls 1] [mkI (OFail 1) 0]];
   mkN 2 false TOther [mkI (ONeed EItem 1 [RRef 2] 0 false) 0] [];
   mkN 3 false (TModel 0%nat) [mkI (OMintModel 2 (Some 0%nat)) 0] [mkE 3 2 [RRef 3; RCls 2] [mkI (ONeed EProp 2 [RRef 3; RCls 2] 0 false) 0]];
   mkN 4 false (TModel 0%nat) [mkI (OMintModel 3 (Some 0%nat)) 0] [mkE 4 3 [RRef 4; RCls 3] []]].
Example guard_satisfiable :
  wf_graph witness_item = true /\ g_no_name_pressure witness_item = true /\ g_no_union_edge_to_failing witness_item = true /\
  survivors witness_item = [4] /\ map er_removed (res_errs (build_schemas witness_item)) = [[1; 2; 3]].
Proof. vm_compute. repeat split; reflexivity. Qed.

(* ------------------------------------------------------------------ provenance invariants: every queued model and every payload is
   an entry of some component; every recorded dependency was declared by an instruction of some component, with ALL its roots *)
Definition AE (g : graph) (e : entry) : Prop := exists m, In m g /\ In e (n_entries m).
Definition inv_q (g : graph) (s : st) : Prop :=
  (forall q, In q (s_queue s) -> AE g (q_entry q)) /\ (forall r e, lookup (s_cbr s) r = Some (PModel e) -> AE g e).

Definition prog_of (m : node) (p : list instr) : Prop := p = n_create m \/ exists e, In e (n_entries m) /\ p = e_prog e.
Definition dep_decl (D : list (ref * root)) (o : op) (t : ref) (x : root) : Prop :=
  match o with
  | ONeed _ t' rs _ _ => t' = t /\ In x rs /\ forall y, In y rs -> In (t, y) D
  | OAllOf t' rs _ => t' = t /\ In x rs /\ forall y, In y rs -> In (t, y) D
  | ODep t' c => t' = t /\ x = RCls c
  | _ => False
  end.
Definition Decl (g : graph) (D : list (ref * root)) (t : ref) (x : root) : Prop :=
  exists m p i, In m g /\ prog_of m p /\ In i p /\ dep_decl D (i_op i) t x.
Definition inv_d (g : graph) (s : st) : Prop := forall t x, In (t, x) (s_deps s) -> Decl g (s_deps s) t x.

Lemma Decl_mono g D D' t x : incl D D' -> Decl g D t x -> Decl g D' t x.
Proof.
  intros Hi (m & p & i & Hm & Hp & Hin & Hd). exists m, p, i. repeat split; auto.
  destruct (i_op i); cbn in *; try tauto; destruct Hd as (A & B & C); repeat split; auto.
Qed.

Lemma exec_op_inv cx g m p i s s' r : In m g -> prog_of m p -> In i p -> (forall e, In e (c_ents cx) -> AE g e) ->
  exec_op cx s (i_op i) = (s', r) -> inv_q g s /\ inv_d g s -> inv_q g s' /\ inv_d g s'.
Proof.
  intros Hm Hp Hi Hents H [[Q1 Q2] ID].
  assert (Hmono : forall D', incl (s_deps s) D' -> forall t x, In (t, x) (s_deps s) -> Decl g D' t x).
  { intros D' Hincl t x Hin. eapply Decl_mono; [exact Hincl|]. now apply ID. }
  destruct (i_op i) eqn:Eo; cbn [exec_op] in H.
  - inversion H; subst. split; [split|]; assumption.
  - destruct (lookup (s_cbr s) t) as [pl|] eqn:L; [|inversion H; subst; split; [split|]; assumption].
    inversion H; subst; clear H. split; [split|]; cbn [s_queue s_cbr s_deps].
    + intros q Hq. apply in_app_or in Hq. destruct Hq as [Hq|Hq]; [now apply Q1|].
      destruct k, pl; cbn in Hq; try contradiction. destruct Hq as [Hq|[]]. subst q. cbn. eapply Q2; eauto.
    + exact Q2.
    + intros t0 x Hin. unfold add_deps in Hin. apply in_app_or in Hin. destruct Hin as [Hin|Hin].
      * apply in_map_iff in Hin. destruct Hin as [y [E Hy]]. inversion E; subst.
        exists m, p, i. repeat split; auto. rewrite Eo. cbn. repeat split; auto.
        intros y Hy'. unfold add_deps. apply in_or_app. left. apply in_map_iff. eauto.
      * apply Hmono; [|exact Hin]. unfold add_deps. apply incl_appr, incl_refl.
  - destruct (lookup (s_cbr s) t) as [[e|]|] eqn:L; try (inversion H; subst; split; [split|]; assumption).
    destruct (mem t (s_done s)); [|inversion H; subst; split; [split|]; assumption].
    inversion H; subst; clear H. split; [split|]; cbn [s_queue s_cbr s_deps]; auto.
    intros t0 x Hin. unfold add_deps in Hin. apply in_app_or in Hin. destruct Hin as [Hin|Hin].
    + apply in_map_iff in Hin. destruct Hin as [y [E Hy]]. inversion E; subst.
      exists m, p, i. repeat split; auto. rewrite Eo. cbn. repeat split; auto.
      intros y Hy'. unfold add_deps. apply in_or_app. left. apply in_map_iff. eauto.
    + apply Hmono; [|exact Hin]. unfold add_deps. apply incl_appr, incl_refl.
  - inversion H; subst; clear H. split; [split|]; cbn [s_queue s_cbr s_deps]; auto.
    intros t0 x Hin. unfold add_deps in Hin. apply in_app_or in Hin. destruct Hin as [Hin|Hin].
    + destruct Hin as [E|[]]. inversion E; subst. exists m, p, i. repeat split; auto. rewrite Eo. cbn. auto.
    + apply Hmono; [|exact Hin]. unfold add_deps. apply incl_appr, incl_refl.
  - destruct (has (s_cbn s) c); [inversion H; subst; split; [split|]; assumption|].
    inversion H; subst; clear H. split; [split|]; cbn [s_queue s_cbr s_deps]; auto.
    intros q0 Hq. apply in_app_or in Hq. destruct Hq as [Hq|Hq]; [now apply Q1|].
    unfold push_entry in Hq. destruct q as [k|]; [|contradiction].
    destruct (nth_error (c_ents cx) k) as [e|] eqn:En; [|contradiction]. destruct Hq as [Hq|[]]. subst q0. cbn.
    apply Hents. eapply nth_error_In; eauto.
  - destruct (lookup (s_cbn s) c) as [[|v']|].
    + inversion H; subst. split; [split|]; assumption.
    + destruct (v' =? v); inversion H; subst; (split; [split|]; assumption).
    + inversion H; subst. split; [split|]; assumption.
Qed.

Lemma exec_inv cx g m p : In m g -> prog_of m p -> (forall e, In e (c_ents cx) -> AE g e) ->
  forall p' s s' r, incl p' p -> exec cx s p' = (s', r) -> inv_q g s /\ inv_d g s -> inv_q g s' /\ inv_d g s'.
Proof.
  intros Hm Hp Hents. induction p' as [|i p' IH]; intros s s' r Hincl H HI; cbn [exec] in H.
  - inversion H; subst. exact HI.
  - destruct (exec_op cx s (i_op i)) as [s1 [c|]] eqn:E.
    + inversion H; subst. eapply exec_op_inv; eauto. apply Hincl. now left.
    + eapply IH; [|exact H|]. { intros a Ha. apply Hincl. now right. }
      eapply exec_op_inv; eauto. apply Hincl. now left.
Qed.

Lemma lookup_cons {A} (l : list (N * A)) k k' v : lookup ((k', v) :: l) k = if k' =? k then Some v else lookup l k.
Proof. reflexivity. Qed.

Lemma create_try_inv g n s s' r : In n g -> create_try s n = (s', r) -> inv_q g s /\ inv_d g s -> inv_q g s' /\ inv_d g s'.
Proof.
  intros Hn H HI. unfold create_try in H.
  destruct (exec (ctx_of n) s (n_create n)) as [s1 [c|]] eqn:E.
  - inversion H; subst; clear H.
    assert (HI1 : inv_q g s1 /\ inv_d g s1).
    { eapply (exec_inv (ctx_of n) g n (n_create n)); eauto; [now left| |apply incl_refl].
      intros e He. exists n. split; assumption. }
    destruct HI as [[Q1 Q2] _]. destruct HI1 as [_ ID1]. unfold revert. split; [split|]; cbn; auto.
  - inversion H; subst; clear H.
    assert (HI1 : inv_q g s1 /\ inv_d g s1).
    { eapply (exec_inv (ctx_of n) g n (n_create n)); eauto; [now left| |apply incl_refl].
      intros e He. exists n. split; assumption. }
    destruct HI1 as [[Q1 Q2] ID1]. split; [split|]; cbn [s_queue s_cbr s_deps]; auto.
    intros r0 e. rewrite lookup_cons. destruct (n_ref n =? r0); [|apply Q2].
    intro Hl. inversion Hl as [Hp]. unfold node_payload in Hp. destruct (n_top n) as [k|t|].
    + destruct (nth_error (n_entries n) k) as [en|] eqn:En; [|discriminate]. inversion Hp; subst.
      exists n. split; [exact Hn|eapply nth_error_In; eauto].
    + destruct (lookup (s_cbr s1) t) as [pl|] eqn:Lt; [|discriminate]. subst pl. eapply Q2; eauto.
    + discriminate.
Qed.

Lemma proc_try_inv g q s s' r : AE g (q_entry q) -> proc_try s q = (s', r) -> inv_q g s /\ inv_d g s -> inv_q g s' /\ inv_d g s'.
Proof.
  intros [m [Hm He]] H HI. unfold proc_try in H.
  destruct (exec ctx_proc s (e_prog (q_entry q))) as [s1 [c|]] eqn:E; inversion H; subst; clear H.
  - assert (HI1 : inv_q g s1 /\ inv_d g s1).
    { eapply (exec_inv ctx_proc g m (e_prog (q_entry q))); eauto; [right; eauto|intros e []|apply incl_refl]. }
    destruct HI as [[Q1 Q2] _]. destruct HI1 as [_ ID1]. unfold revert. split; [split|]; cbn; auto.
  - assert (HI1 : inv_q g s1 /\ inv_d g s1).
    { eapply (exec_inv ctx_proc g m (e_prog (q_entry q))); eauto; [right; eauto|intros e []|apply incl_refl]. }
    destruct HI as [[Q1 Q2] _]. destruct HI1 as [[Q1' Q2'] ID1]. split; [split|]; cbn [s_queue s_cbr s_deps]; auto.
Qed.

Lemma provenance g :
  let s1 := r_st (create_loop g) in let s2 := r_st (process_loop s1) in
  inv_q g s1 /\ inv_d g s2.
Proof.
  cbn zeta.
  assert (H1 : inv_q g (r_st (create_loop g)) /\ inv_d g (r_st (create_loop g))).
  { unfold create_loop, run_loop.
    pose proof (loop_inv create_try no_final (fun s => inv_q g s /\ inv_d g s) (fun _ _ => True) (fun n => In n g)) as L.
    assert (P_step : forall s x s' r, In x g -> inv_q g s /\ inv_d g s -> create_try s x = (s', r) -> inv_q g s' /\ inv_d g s')
      by (intros; eapply create_try_inv; eauto).
    specialize (L P_step (fun _ _ _ _ _ _ _ _ _ => I) (fun _ _ _ _ _ _ => I) (S (length (create_todo g))) (create_todo g) st0 []
                  (Nat.lt_succ_diag_r _) (create_todo_in g)).
    assert (H0 : inv_q g st0 /\ inv_d g st0).
    { split; [split|].
      - intros q Hq. destruct Hq.
      - intros r e Hl. discriminate Hl.
      - intros t x Hin. destruct Hin. }
    specialize (L H0). cbn zeta in L. tauto. }
  split; [tauto|].
  unfold process_loop, run_loop.
  pose proof (loop_inv proc_try is_rec (fun s => inv_q g s /\ inv_d g s) (fun _ _ => True) (fun q => AE g (q_entry q))) as L.
  assert (P_step : forall s x s' r, AE g (q_entry x) -> inv_q g s /\ inv_d g s -> proc_try s x = (s', r) -> inv_q g s' /\ inv_d g s')
    by (intros; eapply proc_try_inv; eauto).
  specialize (L P_step (fun _ _ _ _ _ _ _ _ _ => I) (fun _ _ _ _ _ _ => I) (S (length (s_queue (r_st (create_loop g)))))
                (s_queue (r_st (create_loop g))) (r_st (create_loop g)) [] (Nat.lt_succ_diag_r _)).
  destruct H1 as [[Q1 Q2] ID]. specialize (L Q1 (conj (conj Q1 Q2) ID)). cbn zeta in L. tauto.
Qed.

(* ------------------------------------------------------------------ class names: disjointness unpacked *)
Lemma disjoint_all_spec {A} (f : A -> list N) : forall (l : list A) a b c,
  disjoint_all (map f l) = true -> In a l -> In b l -> In c (f a) -> In c (f b) -> a = b.
Proof.
  induction l as [|x l IH]; intros a b c H Ha Hb Hca Hcb; [contradiction|].
  cbn [map disjoint_all] in H. apply andb_true_iff in H. destruct H as [H1 H2]. rewrite forallb_forall in H1.
  assert (K : forall y, In y l -> In c (f x) -> In c (f y) -> False).
  { intros y Hy Hx Hy'. specialize (H1 (f y) (in_map f _ _ Hy)). rewrite forallb_forall in H1. specialize (H1 c Hx).
    apply negb_true_iff in H1. apply mem_in in Hy'. congruence. }
  destruct Ha as [Ha|Ha], Hb as [Hb|Hb]; subst; auto.
  - exfalso. eapply K; eauto.
  - exfalso. eapply K; eauto.
  - eapply IH; eauto.
Qed.

Lemma roots_cls_in c rs : In (RCls c) rs -> In c (roots_cls rs).
Proof. intro H. unfold roots_cls. apply in_flat_map. exists (RCls c). split; [exact H|now left]. Qed.

Lemma prog_cls_in p i c : In i p -> In c (op_cls (i_op i)) -> In c (prog_cls p).
Proof. intros Hi Hc. unfold prog_cls. apply in_flat_map. eauto. Qed.

Lemma prog_mints_cls p c : In c (prog_mints p) -> In c (prog_cls p).
Proof.
  unfold prog_mints, prog_cls. intro H. apply in_flat_map in H. destruct H as [i [Hi Hc]]. apply in_flat_map. exists i. split; [exact Hi|].
  destruct (i_op i); cbn in *; tauto.
Qed.

Lemma node_mints_cls n c : In c (node_mints n) -> In c (node_cls n).
Proof.
  unfold node_mints, node_cls. intro H. apply in_app_or in H. apply in_or_app. destruct H as [H|H].
  - left. now apply prog_mints_cls.
  - right. apply in_flat_map in H. destruct H as [e [He Hc]]. apply in_flat_map. exists e. split; [exact He|].
    unfold entry_cls. right. apply in_or_app. right. now apply prog_mints_cls.
Qed.

Lemma prog_of_cls m p i c : prog_of m p -> In i p -> In c (op_cls (i_op i)) -> In c (node_cls m).
Proof.
  intros [->|[e [He ->]]] Hi Hc; unfold node_cls; apply in_or_app.
  - left. eapply prog_cls_in; eauto.
  - right. apply in_flat_map. exists e. split; [exact He|]. unfold entry_cls. right. apply in_or_app. right. eapply prog_cls_in; eauto.
Qed.

Lemma prog_of_edges m p e : prog_of m p -> In e (prog_edges p) -> In e (node_edges m).
Proof.
  intros [->|[en [He ->]]] Hin; unfold node_edges; apply in_or_app; [now left|right].
  apply in_flat_map. eauto.
Qed.

Lemma wf_node_dep_self n p i r c : wf_node n = true -> prog_of n p -> In i p -> i_op i = ODep r c -> r = n_ref n.
Proof.
  unfold wf_node. intros H Hp Hi Ho. apply andb_true_iff in H. destruct H as [H H3]. apply andb_true_iff in H. destruct H as [_ H2].
  assert (Hs : prog_self (n_ref n) p = true).
  { destruct Hp as [->|[e [He ->]]]; [exact H2|]. rewrite forallb_forall in H3. specialize (H3 _ He). apply andb_true_iff in H3. tauto. }
  unfold prog_self in Hs. rewrite forallb_forall in Hs. specialize (Hs _ Hi). rewrite Ho in Hs. cbn in Hs. now apply N.eqb_eq in Hs.
Qed.

(* under the guards, every model class of a surviving component has been processed *)
Lemma survivor_done g : wf_graph g = true -> g_no_union_edge_to_failing g = true ->
  forall n, In n g -> has (res_cbr (build_schemas g)) (n_ref n) = true ->
  let s2 := r_st (process_loop (r_st (create_loop g))) in
  prog_done [] (n_create n) s2 /\ forall en, In en (n_entries n) -> prog_done [] (e_prog en) s2.
Proof.
  intros Hwf Hg n Hn Hs. cbn zeta.
  destruct (wf_graph_spec _ Hwf) as [Hnd Hwn]. destruct (guard_spec _ Hg) as [G1 G2].
  destruct (build_facts g) as [es (F1 & F2 & F3 & F4 & F5 & F6 & F7 & F8 & F9)]. cbn zeta in *.
  set (R := build_schemas g) in *. set (s1 := r_st (create_loop g)) in *. set (pl := process_loop s1) in *. set (s2 := r_st pl) in *.
  destruct (create_phase_spec g Hnd) as [IC _]. fold s1 in IC.
  destruct (process_phase_spec s1) as (P1 & P2 & P3 & P4 & P5). fold pl in P1, P2, P3, P4, P5. fold s2 in P1, P2, P3.
  assert (Hs1 : has (s_cbr s1) (n_ref n) = true) by (rewrite <- P1; apply F3, Hs).
  split.
  - apply prog_done_drop_ents with (ents := n_entries n). eapply prog_done_ext; [exact P2|]. now apply IC.
  - intros en Hen.
    destruct (wf_node_pushed n en (Hwn n Hn) Hen) as [i [j (Hi & Ho & Hj)]].
    destruct (IC n Hn Hs1) as (_ & _ & D3 & _). destruct (D3 i _ _ _ Hi Ho Hj) as [ow Hq].
    destruct (P3 _ Hq) as [Hd|Herr]; [exact Hd|exfalso].
    assert (Hm : exists c, In (mkQ ow (e_name en) en, c) (r_final pl ++ r_retry pl)).
    { destruct Herr as [[c H]|[c H]]; exists c; apply in_or_app; [now right|now left]. }
    destruct Hm as [c Hm]. destruct (F7 _ _ Hm) as [er (E1 & E2 & E3 & E4 & E5)]. cbn [q_entry] in E5.
    assert (Hin : In er (res_errs R)) by (rewrite F1; apply in_or_app; now right).
    destruct (G2 er Hin) as [Hc|[r Hr]]; [congruence|].
    rewrite E5 in Hr. pose proof (wf_node_entry_self n en r (Hwn n Hn) Hen Hr) as ->.
    specialize (F5 _ _ _ Hm Hr). cbn in F5. congruence.
Qed.

(* ------------------------------------------------------------------ T classes_closed (C08/C07): under the guards, every class a
   surviving component mints (its own model class, inline models and enums of its properties, of its items and union members)
   is in classes_by_name at the end: its module is generated *)
Theorem classes_closed g : wf_graph g = true -> g_no_name_pressure g = true -> g_no_union_edge_to_failing g = true ->
  forall n, In n g -> has (res_cbr (build_schemas g)) (n_ref n) = true ->
  forall c, In c (node_mints n) -> has (res_cbn (build_schemas g)) c = true.
Proof.
  intros Hwf Hnp Hg n Hn Hs c Hc.
  destruct (survivor_done g Hwf Hg n Hn Hs) as [SD1 SD2]. cbn zeta in SD1, SD2.
  destruct (wf_graph_spec _ Hwf) as [Hnd Hwn]. destruct (guard_spec _ Hg) as [G1 G2].
  destruct (provenance g) as [[Q1 Q2] ID]. cbn zeta in ID.
  destruct (build_facts g) as [es (F1 & F2 & F3 & F4 & F5 & F6 & F7 & F8 & F9)]. cbn zeta in *.
  set (R := build_schemas g) in *. set (s1 := r_st (create_loop g)) in *. set (pl := process_loop s1) in *. set (s2 := r_st pl) in *.
  destruct (process_phase_spec s1) as (P1 & P2 & P3 & P4 & P5). fold pl in P1, P2, P3, P4, P5. fold s2 in P1, P2, P3.
  (* the class was there before the removals *)
  assert (Hc2 : has (s_cbn s2) c = true).
  { unfold node_mints in Hc. apply in_app_or in Hc. destruct Hc as [Hc|Hc].
    - destruct SD1 as (_ & D2 & _). now apply D2.
    - apply in_flat_map in Hc. destruct Hc as [en [Hen Hc]]. destruct (SD2 en Hen) as (_ & D2 & _). now apply D2. }
  destruct (has (res_cbn R) c) eqn:Ec; [reflexivity|exfalso].
  pose proof (node_mints_cls _ _ Hc) as Hcn.
  destruct (F9 c Hc2 Ec) as [[q [cat [Hm Hr]]]|[r (Hr1 & Hr2 & Hr3)]].
  - (* c among the roots of a model that failed: it is one of n's own models, whose roots name n *)
    assert (Hq : In q (s_queue s1)) by (apply in_app_or in Hm; destruct Hm as [Hm|Hm]; [eapply P5|eapply P4]; eauto).
    destruct (Q1 q Hq) as [m [Hm1 Hm2]].
    assert (m = n).
    { eapply (disjoint_all_spec node_cls g m n c); eauto. unfold node_cls. apply in_or_app. right. apply in_flat_map.
      exists (q_entry q). split; [exact Hm2|]. unfold entry_cls. right. apply in_or_app. left. now apply roots_cls_in. }
    subst m.
    destruct (F7 _ _ Hm) as [er (E1 & E2 & E3 & E4 & E5)].
    assert (Hin : In er (res_errs R)) by (rewrite F1; apply in_or_app; now right).
    destruct (G2 er Hin) as [Hx|[r Hr']]; [congruence|].
    rewrite E5 in Hr'. pose proof (wf_node_entry_self n _ r (Hwn n Hn) Hm2 Hr') as ->.
    specialize (F5 _ _ _ Hm Hr'). cbn in F5. congruence.
  - (* c recorded as a dependant of a removed reference: the recording instruction belongs to n *)
    destruct (ID _ _ Hr3) as (m & p & i & Hm & Hp & Hi & Hd).
    destruct (i_op i) eqn:Eo; cbn in Hd; try contradiction.
    + destruct Hd as (-> & Hx & Hall).
      assert (m = n).
      { eapply (disjoint_all_spec node_cls g m n c); eauto. eapply prog_of_cls; eauto. rewrite Eo. cbn. now apply roots_cls_in. }
      subst m.
      assert (He : In (k, r, rs) (node_edges n)).
      { eapply prog_of_edges; eauto. unfold prog_edges. apply in_flat_map. exists i. split; [exact Hi|]. rewrite Eo. now left. }
      destruct (G1 n Hn _ He) as [Hrec|Hsurv]; [|cbn in Hsurv; congruence].
      unfold recorded in Hrec. cbn [snd] in Hrec. apply mem_root_in in Hrec.
      destruct (F6 r Hr1 Hr2) as [_ Hh]. specialize (Hh _ (Hall _ Hrec)). cbn in Hh. congruence.
    + destruct Hd as (-> & Hx & Hall).
      assert (m = n).
      { eapply (disjoint_all_spec node_cls g m n c); eauto. eapply prog_of_cls; eauto. rewrite Eo. cbn. now apply roots_cls_in. }
      subst m.
      assert (He : In (EAllOf, r, rs) (node_edges n)).
      { eapply prog_of_edges; eauto. unfold prog_edges. apply in_flat_map. exists i. split; [exact Hi|]. rewrite Eo. now left. }
      destruct (G1 n Hn _ He) as [Hrec|Hsurv]; [|cbn in Hsurv; congruence].
      unfold recorded in Hrec. cbn [snd] in Hrec. apply mem_root_in in Hrec.
      destruct (F6 r Hr1 Hr2) as [_ Hh]. specialize (Hh _ (Hall _ Hrec)). cbn in Hh. congruence.
    + destruct Hd as (-> & Hx). inversion Hx; subst c0.
      assert (m = n).
      { eapply (disjoint_all_spec node_cls g m n c); eauto. eapply prog_of_cls; eauto. rewrite Eo. cbn. now left. }
      subst m. pose proof (wf_node_dep_self n p i r c (Hwn n Hn) Hp Hi Eo) as ->. congruence.
Qed.

(* R name pressure: M has an inline object property whose minted class name is the class name of component MP.  M fails with a
   duplicate-name diagnostic; the dependency (M, class MP) recorded BEFORE the duplicate check makes the removal of M pop the
   class of the unrelated component MP, which stays referenced by User: no module for MP, no diagnostic naming MP *)
Definition witness_pressure : graph :=
  [mkN 1 false (TModel 0%nat) [mkI (OMintModel 1 (Some 0%nat)) 0] [mkE 1 1 [RRef 1; RCls 1] []];
   mkN 2 false (TModel 0%nat) [mkI (OMintModel 2 (Some 0%nat)) 0] [mkE 2 2 [RRef 2; RCls 2] [mkI (ODep 2 1) 0; mkI (OMintModel 1 None) 0]];
   mkN 3 false (TModel 0%nat) [mkI (OMintModel 3 (Some 0%nat)) 0] [mkE 3 3 [RRef 3; RCls 3] [mkI (ONeed EProp 1 [RRef 3; RCls 3] 0 false) 0]]].
Theorem name_pressure_refuted :
  exists g, wf_graph g = true /\ g_no_union_edge_to_failing g = true /\ g_no_name_pressure g = false /\
    exists n c, In n g /\ has (res_cbr (build_schemas g)) (n_ref n) = true /\ In c (node_mints n) /\
                has (res_cbn (build_schemas g)) c = false /\
                forall e, In e (res_errs (build_schemas g)) -> er_unit e <> n_ref n /\ ~ In (n_ref n) (er_removed e).
Proof.
  exists witness_pressure. split; [vm_compute; reflexivity|]. split; [vm_compute; reflexivity|]. split; [vm_compute; reflexivity|].
  exists (mkN 1 false (TModel 0%nat) [mkI (OMintModel 1 (Some 0%nat)) 0] [mkE 1 1 [RRef 1; RCls 1] []]), 1.
  split; [left; reflexivity|]. split; [vm_compute; reflexivity|]. split; [left; reflexivity|]. split; [vm_compute; reflexivity|].
  vm_compute. intros e [<-|[]]. cbn. split; [discriminate|]. intros [H|[]]. discriminate.
Qed.

(* ------------------------------------------------------------------ the cascade deletes EXACTLY the recorded dependants:
   a reference is deleted only if it is a root of a model that failed, or a recorded dependant of a deleted reference *)
Inductive Reach (D : list (ref * root)) (cbr : list (ref * payload)) (work : list root) : ref -> Prop :=
| reach_root : forall r, In (RRef r) work -> has cbr r = true -> Reach D cbr work r
| reach_dep : forall t r, Reach D cbr work t -> In (t, RRef r) D -> has cbr r = true -> Reach D cbr work r.

Lemma remove_wl_exact D : forall fuel work cbr cbn acc cbr' cbn' acc',
  remove_wl fuel D work cbr cbn acc = (cbr', cbn', acc') ->
  forall r, has cbr r = true -> has cbr' r = false -> Reach D cbr work r.
Proof.
  induction fuel as [|fuel IH]; intros work cbr cbn acc cbr' cbn' acc' H r H1 H2; cbn [remove_wl] in H.
  - inversion H; subst. congruence.
  - destruct work as [|[r0|c] w].
    + inversion H; subst. congruence.
    + destruct (has cbr r0) eqn:E.
      * destruct (N.eq_dec r0 r) as [->|Hne]; [apply reach_root; [now left|exact H1]|].
        assert (H1' : has (del r0 cbr) r = true) by (rewrite has_del_other; auto).
        specialize (IH _ _ _ _ _ _ _ H r H1' H2).
        clear - IH E. induction IH as [r Hin Hh|t r _ IHt Hin Hh].
        -- apply in_app_or in Hin. destruct Hin as [Hin|Hin].
           ++ apply reach_dep with (t := r0); [apply reach_root; [now left|exact E]|now apply in_children|eapply has_del_le; eauto].
           ++ apply reach_root; [now right|eapply has_del_le; eauto].
        -- eapply reach_dep; [exact IHt|exact Hin|eapply has_del_le; eauto].
      * specialize (IH _ _ _ _ _ _ _ H r H1 H2).
        clear - IH. induction IH as [r Hin Hh|t r _ IHt Hin Hh]; [apply reach_root; [now right|exact Hh]|eapply reach_dep; eauto].
    + specialize (IH _ _ _ _ _ _ _ H r H1 H2).
      clear - IH. induction IH as [r Hin Hh|t r _ IHt Hin Hh]; [apply reach_root; [now right|exact Hh]|eapply reach_dep; eauto].
Qed.

Lemma Reach_le D cbr cbr0 work r : keys_le cbr cbr0 -> Reach D cbr work r -> Reach D cbr0 work r.
Proof. intros K H. induction H; [apply reach_root; auto|eapply reach_dep; eauto]. Qed.

Lemma model_errors_exact D : forall mes cbr cbn cbrF cbnF es,
  model_errors D mes cbr cbn = (cbrF, cbnF, es) ->
  forall r, has cbr r = true -> has cbrF r = false -> exists q c, In (q, c) mes /\ Reach D cbr (e_roots (q_entry q)) r.
Proof.
  induction mes as [|[q c] mes IH]; intros cbr cbn cbrF cbnF es H r H1 H2; cbn [model_errors] in H.
  - inversion H; subst. congruence.
  - destruct (remove_roots D (e_roots (q_entry q)) cbr cbn) as [[cbr1 cbn1] acc] eqn:R.
    destruct (model_errors D mes cbr1 cbn1) as [[cbr2 cbn2] es2] eqn:M. inversion H; subst. clear H.
    destruct (remove_roots_spec _ _ _ _ _ _ _ R) as (R1 & _).
    destruct (has cbr1 r) eqn:E1.
    + destruct (IH _ _ _ _ _ M r E1 H2) as [q0 [c0 [A B]]]. exists q0, c0. split; [now right|eapply Reach_le; eauto].
    + exists q, c. split; [now left|]. unfold remove_roots in R. eapply remove_wl_exact; eauto.
Qed.

(* T removal_exact (C08, containment of the cascade): nothing but the recorded dependants+ of the models that failed is deleted,
   and create / process never delete anything (ext): whatever is unrelated to a failing model stays in classes_by_reference *)
Theorem removal_exact g :
  let s2 := r_st (process_loop (r_st (create_loop g))) in
  let pl := process_loop (r_st (create_loop g)) in
  forall r, has (s_cbr s2) r = true -> has (res_cbr (build_schemas g)) r = false ->
  exists q c, In (q, c) (r_final pl ++ r_retry pl) /\ Reach (s_deps s2) (s_cbr s2) (e_roots (q_entry q)) r.
Proof.
  cbn zeta. intros r H1 H2. unfold build_schemas in H2.
  destruct (model_errors _ _ _ _) as [[cbrF cbnF] es] eqn:M. cbn [res_cbr] in H2.
  eapply model_errors_exact; eauto.
Qed.

(* R union_inline_reprocessed: U = anyOf[{x: {y: string}}, string] - a VALID document.  The inline object member is processed
   when U is created (UnionProperty.build -> property_from_data, process_properties defaults to True) and is ALSO appended to
   models_to_process; _process_models runs it again, its own inline class UType0X is now a duplicate, the error's roots are
   {UType0} only (no reference: the union passed no roots): UType0 is popped, U survives and refers to it; the diagnostic's
   removal list is empty.  (ids: U = 1; classes UType0 = 1, UType0X = 2) *)
Definition witness_union_inline : graph :=
  [mkN 1 false TOther [mkI (OMintModel 2 (Some 0%nat)) 10; mkI (OMintModel 1 (Some 1%nat)) 10]
       [mkE 3 2 [RCls 1; RCls 2] []; mkE 2 1 [RCls 1] [mkI (OMintModel 2 None) 0]]].
Theorem union_inline_reprocessed_refuted :
  exists g, wf_graph g = true /\ g_no_name_pressure g = true /\ g_no_union_edge_to_failing g = false /\
    exists n c, In n g /\ has (res_cbr (build_schemas g)) (n_ref n) = true /\ In c (node_mints n) /\
                has (res_cbn (build_schemas g)) c = false /\ map er_removed (res_errs (build_schemas g)) = [[]].
Proof.
  exists witness_union_inline. split; [vm_compute; reflexivity|]. split; [vm_compute; reflexivity|]. split; [vm_compute; reflexivity|].
  eexists. exists 1. split; [left; reflexivity|]. split; [vm_compute; reflexivity|]. split; [vm_compute; tauto|].
  split; vm_compute; reflexivity.
Qed.
