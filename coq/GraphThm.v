(* GraphThm.v -- theorems about the schema-graph machine of Graph.v, for ALL graphs:
   loops_terminate (the fuel of the three loops suffices), accounting (every component is a survivor or named in a diagnostic),
   removal_closed / classes_closed (what survives refers only to survivors, under the guards), the refutation witnesses. *)
From Coq Require Import NArith List Bool Lia PeanoNat.
Import ListNotations.
Require Import OPC.Graph.
Open Scope N_scope.

(* ------------------------------------------------------------------ association lists *)
Lemma has_lookup {A} (l : list (N * A)) k : has l k = true <-> exists v, lookup l k = Some v.
Proof. unfold has. destruct (lookup l k) eqn:E; split; intro H; eauto; try discriminate. destruct H; discriminate. Qed.

Lemma has_cons {A} (l : list (N * A)) k k' v : has ((k', v) :: l) k = (k' =? k) || has l k.
Proof. unfold has. cbn [lookup]. destruct (k' =? k); reflexivity. Qed.

Lemma has_in {A} (l : list (N * A)) k : has l k = true <-> In k (map fst l).
Proof.
  induction l as [|[k' v] l IH]; cbn [map fst].
  - unfold has. cbn. split; [discriminate|intros []].
  - rewrite has_cons, orb_true_iff, IH, N.eqb_eq. cbn. tauto.
Qed.

Lemma has_del_same {A} (l : list (N * A)) k : has (del k l) k = false.
Proof.
  destruct (has (del k l) k) eqn:E; [|reflexivity]. apply has_in in E. apply in_map_iff in E.
  destruct E as [[k' v] [E1 E2]]. cbn in E1. subst k'. unfold del in E2. apply filter_In in E2. cbn in E2.
  rewrite N.eqb_refl in E2. destruct E2; discriminate.
Qed.

Lemma has_del_other {A} (l : list (N * A)) k k' : k <> k' -> has (del k l) k' = has l k'.
Proof.
  intro Hne. induction l as [|[k0 v] l IH]; [reflexivity|].
  unfold del. cbn [filter fst]. destruct (N.eqb_spec k0 k) as [E|E]; cbn [negb].
  - subst k0. rewrite has_cons. destruct (N.eqb_spec k k'); [contradiction|]. cbn. exact IH.
  - rewrite !has_cons. fold (del k l). rewrite IH. reflexivity.
Qed.

Lemma has_del_le {A} (l : list (N * A)) k k' : has (del k l) k' = true -> has l k' = true.
Proof. destruct (N.eq_dec k k') as [->|Hne]; [rewrite has_del_same; discriminate|now rewrite has_del_other]. Qed.

Lemma del_length {A} (l : list (N * A)) k : (length (del k l) <= length l)%nat.
Proof. unfold del. induction l as [|a l IH]; cbn [filter length]; [lia|]. destruct (negb (fst a =? k)); cbn [length]; lia. Qed.

Lemma del_length_lt {A} (l : list (N * A)) k : has l k = true -> (length (del k l) < length l)%nat.
Proof.
  induction l as [|[k0 v] l IH]; [unfold has; cbn; discriminate|].
  rewrite has_cons. unfold del. cbn [filter fst]. destruct (N.eqb_spec k0 k) as [E|E]; cbn [negb orb length].
  - intros _. fold (del k l). pose proof (del_length l k). lia.
  - intro H. fold (del k l). specialize (IH H). lia.
Qed.

Lemma mem_in k l : mem k l = true <-> In k l.
Proof.
  unfold mem. rewrite existsb_exists. split.
  - intros [x [Hx He]]. apply N.eqb_eq in He. now subst.
  - intro H. exists k. split; [exact H|apply N.eqb_refl].
Qed.

Lemma root_eqb_eq a b : root_eqb a b = true <-> a = b.
Proof.
  destruct a, b; cbn; rewrite ?N.eqb_eq; split; intro H; try discriminate; try (now subst); try (now inversion H).
Qed.

Lemma mem_root_in r l : mem_root r l = true <-> In r l.
Proof.
  unfold mem_root. rewrite existsb_exists. split.
  - intros [x [Hx He]]. apply root_eqb_eq in He. now subst.
  - intro H. exists r. split; [exact H|now apply root_eqb_eq].
Qed.

(* ------------------------------------------------------------------ the retry loops, generically *)
Section RetryThm.
  Context {St It : Type}.
  Variable try : St -> It -> St * option N.
  Variable is_final : N -> bool.

  Lemma round_len s todo :
    (length (r_retry (round try is_final s todo)) <= length todo)%nat /\
    (r_prog (round try is_final s todo) = true -> length (r_retry (round try is_final s todo)) < length todo)%nat.
  Proof.
    revert s. induction todo as [|x t IH]; intro s; cbn [round].
    - cbn. split; [lia|discriminate].
    - destruct (try s x) as [s' [c|]].
      + destruct (IH s') as [I1 I2]. destruct (is_final c); cbn [r_retry r_prog length]; split; intros; try specialize (I2 H); lia.
      + destruct (IH s') as [I1 I2]. cbn [r_retry r_prog length]. split; intros; lia.
  Qed.

  (* T loops_terminate (generic): any fuel above the length of the pending list gives the same result: the loop always ends
     because a round made no progress, never because the fuel ran out *)
  Lemma loop_fuel : forall f1 f2 s todo fin, (length todo < f1)%nat -> (length todo < f2)%nat ->
    loop try is_final f1 s todo fin = loop try is_final f2 s todo fin.
  Proof.
    induction f1 as [|f1 IH]; intros f2 s todo fin H1 H2; [lia|].
    destruct f2 as [|f2]; [lia|]. cbn [loop].
    destruct (r_prog (round try is_final s todo)) eqn:E; [|reflexivity].
    pose proof (round_len s todo) as [_ L]. specialize (L E).
    apply IH; rewrite map_length; lia.
  Qed.

  (* the exit is a round without progress *)
  Lemma loop_exit : forall f s todo fin, (length todo < f)%nat -> r_prog (loop try is_final f s todo fin) = false.
  Proof.
    induction f as [|f IH]; intros s todo fin H; [lia|]. cbn [loop].
    destruct (r_prog (round try is_final s todo)) eqn:E; [|reflexivity].
    pose proof (round_len s todo) as [_ L]. specialize (L E). apply IH. rewrite map_length. lia.
  Qed.

  (* invariants and accounting: P is preserved by every attempt; Q x s ("x is done in s") is established by a successful
     attempt and preserved afterwards.  Then every pending item is done, or carries an error of the last round, or a final one *)
  Variable P : St -> Prop.
  Variable Q : It -> St -> Prop.
  Variable Dom : It -> Prop.
  Hypothesis P_step : forall s x s' r, Dom x -> P s -> try s x = (s', r) -> P s'.
  Hypothesis Q_step : forall s x y s' r, Dom y -> P s -> try s y = (s', r) -> Q x s -> Q x s'.
  Hypothesis Q_succ : forall s x s', Dom x -> P s -> try s x = (s', None) -> Q x s'.

  Lemma round_inv : forall todo s, (forall x, In x todo -> Dom x) -> P s ->
    let r := round try is_final s todo in
    P (r_st r) /\ (forall x, Q x s -> Q x (r_st r)) /\
    (forall x, In x todo -> Q x (r_st r) \/ (exists c, In (x, c) (r_retry r)) \/ (exists c, In (x, c) (r_final r))) /\
    (forall x c, In (x, c) (r_retry r) -> In x todo) /\ (forall x c, In (x, c) (r_final r) -> In x todo).
  Proof.
    induction todo as [|x t IH]; intros s HD HP; cbn [round].
    - cbn. repeat split; auto; intros; contradiction.
    - assert (Dx : Dom x) by (apply HD; now left).
      assert (HD' : forall y, In y t -> Dom y) by (intros y Hy; apply HD; now right).
      destruct (try s x) as [s' [c|]] eqn:E.
      + pose proof (P_step _ _ _ _ Dx HP E) as HP'. destruct (IH s' HD' HP') as (I1 & I2 & I3 & I4 & I5).
        destruct (is_final c); cbn [r_st r_retry r_final]; (split; [exact I1|]); (split; [intros y Hy; apply I2; exact (Q_step s y x s' _ Dx HP E Hy)|]).
        * split; [|split].
          -- intros y [Hy|Hy]; [subst y; right; right; exists c; now left|].
             destruct (I3 y Hy) as [H|[[c' H]|[c' H]]]; [now left|right; left; eauto|right; right; exists c'; now right].
          -- intros y c' Hy. right. eapply I4; eauto.
          -- intros y c' [Hy|Hy]; [inversion Hy; now left|right; eapply I5; eauto].
        * split; [|split].
          -- intros y [Hy|Hy]; [subst y; right; left; exists c; now left|].
             destruct (I3 y Hy) as [H|[[c' H]|[c' H]]]; [now left|right; left; exists c'; now right|right; right; eauto].
          -- intros y c' [Hy|Hy]; [inversion Hy; now left|right; eapply I4; eauto].
          -- intros y c' Hy. right. eapply I5; eauto.
      + pose proof (P_step _ _ _ _ Dx HP E) as HP'. destruct (IH s' HD' HP') as (I1 & I2 & I3 & I4 & I5).
        cbn [r_st r_retry r_final]. split; [exact I1|]. split; [intros y Hy; apply I2; exact (Q_step s y x s' _ Dx HP E Hy)|]. split; [|split].
        * intros y [Hy|Hy]; [subst y; left; apply I2; exact (Q_succ s x s' Dx HP E)|now apply I3].
        * intros y c' Hy. right. eapply I4; eauto.
        * intros y c' Hy. right. eapply I5; eauto.
  Qed.

  Lemma loop_inv : forall f todo s fin, (length todo < f)%nat -> (forall x, In x todo -> Dom x) -> P s ->
    let r := loop try is_final f s todo fin in
    P (r_st r) /\ (forall x, Q x s -> Q x (r_st r)) /\
    (forall x, In x todo -> Q x (r_st r) \/ (exists c, In (x, c) (r_retry r)) \/ (exists c, In (x, c) (r_final r))) /\
    (forall x c, In (x, c) fin -> In (x, c) (r_final r)) /\
    (forall x c, In (x, c) (r_retry r) -> In x todo) /\ (forall x c, In (x, c) (r_final r) -> In (x, c) fin \/ In x todo).
  Proof.
    induction f as [|f IH]; intros todo s fin Hf HD HP; [lia|]. cbn [loop].
    pose proof (round_inv todo s HD HP) as R. cbn zeta in R. destruct R as (R1 & R2 & R3 & R4 & R5).
    destruct (r_prog (round try is_final s todo)) eqn:E.
    - pose proof (round_len s todo) as [_ L]. specialize (L E).
      assert (Hlen : (length (map fst (r_retry (round try is_final s todo))) < f)%nat) by (rewrite map_length; lia).
      assert (HD2 : forall y, In y (map fst (r_retry (round try is_final s todo))) -> Dom y).
      { intros y Hy. apply in_map_iff in Hy. destruct Hy as [[y' c'] [Hy1 Hy2]]. cbn in Hy1. subst y'. apply HD. eapply R4; eauto. }
      specialize (IH _ (r_st (round try is_final s todo)) (fin ++ r_final (round try is_final s todo)) Hlen HD2 R1). cbn zeta in IH.
      destruct IH as (J1 & J2 & J3 & J4 & J5 & J6).
      split; [exact J1|]. split; [intros x Hx; apply J2, R2, Hx|]. split; [|split; [|split]].
      + intros x Hx. destruct (R3 x Hx) as [H|[[c H]|[c H]]].
        * left. now apply J2.
        * apply J3. apply in_map_iff. exists (x, c). split; [reflexivity|exact H].
        * right. right. exists c. apply J4. apply in_or_app. now right.
      + intros x c Hx. apply J4. apply in_or_app. now left.
      + intros x c Hx. specialize (J5 x c Hx). apply in_map_iff in J5. destruct J5 as [[y c'] [Hy1 Hy2]]. cbn in Hy1. subst y. eapply R4; eauto.
      + intros x c Hx. destruct (J6 x c Hx) as [H|H].
        * apply in_app_or in H. destruct H as [H|H]; [now left|right; eapply R5; eauto].
        * right. apply in_map_iff in H. destruct H as [[y c'] [Hy1 Hy2]]. cbn in Hy1. subst y. eapply R4; eauto.
    - cbn [r_st r_retry r_final]. split; [exact R1|]. split; [exact R2|]. split; [|split; [|split]].
      + intros x Hx. destruct (R3 x Hx) as [H|[[c H]|[c H]]]; [now left|right; left; eauto|right; right; exists c; apply in_or_app; now right].
      + intros x c Hx. apply in_or_app. now left.
      + exact R4.
      + intros x c Hx. apply in_app_or in Hx. destruct Hx as [H|H]; [now left|right; eapply R5; eauto].
  Qed.
End RetryThm.

(* ------------------------------------------------------------------ one instruction list *)
Definition keys_le {A} (l l' : list (N * A)) : Prop := forall k, has l k = true -> has l' k = true.
Lemma keys_le_refl {A} (l : list (N * A)) : keys_le l l. Proof. intros k H; exact H. Qed.
Lemma keys_le_cons {A} (l : list (N * A)) k v : keys_le l ((k, v) :: l).
Proof. intros k' H. rewrite has_cons, H. apply orb_true_r. Qed.
Lemma keys_le_trans {A} (a b c : list (N * A)) : keys_le a b -> keys_le b c -> keys_le a c.
Proof. intros H1 H2 k H. apply H2, H1, H. Qed.

(* ext s s': s' knows at least what s knows *)
Definition ext (s s' : st) : Prop :=
  keys_le (s_cbr s) (s_cbr s') /\ keys_le (s_cbn s) (s_cbn s') /\ incl (s_deps s) (s_deps s') /\ incl (s_queue s) (s_queue s').
Lemma ext_refl s : ext s s.
Proof. repeat split; try apply keys_le_refl; apply incl_refl. Qed.
Lemma ext_trans a b c : ext a b -> ext b c -> ext a c.
Proof.
  intros (A1 & A2 & A3 & A4) (B1 & B2 & B3 & B4). repeat split.
  - eapply keys_le_trans; eauto. - eapply keys_le_trans; eauto. - eapply incl_tran; eauto. - eapply incl_tran; eauto.
Qed.

Ltac inc := let a := fresh "a" in let Ha := fresh "Ha" in
  intros a Ha; unfold add_deps; cbn [map app];
  first [exact Ha | right; exact Ha | apply in_or_app; right; exact Ha | apply in_or_app; left; exact Ha].

Lemma exec_op_frame cx s o s' r : exec_op cx s o = (s', r) ->
  s_cbr s' = s_cbr s /\ s_done s' = s_done s /\ keys_le (s_cbn s) (s_cbn s') /\ incl (s_deps s) (s_deps s') /\
  incl (s_queue s) (s_queue s').
Proof.
  intro H. destruct o; cbn [exec_op] in H.
  - inversion H; subst. repeat split; try apply keys_le_refl; apply incl_refl.
  - destruct (lookup (s_cbr s) t); inversion H; subst; cbn [s_cbr s_cbn s_deps s_queue s_done]; repeat split; try apply keys_le_refl; try apply incl_refl; inc.
  - destruct (lookup (s_cbr s) t) as [[e|]|]; try (inversion H; subst; repeat split; try apply keys_le_refl; apply incl_refl).
    destruct (mem t (s_done s)); inversion H; subst; cbn [s_cbr s_cbn s_deps s_queue s_done]; repeat split; try apply keys_le_refl; try apply incl_refl; inc.
  - inversion H; subst; cbn [s_cbr s_cbn s_deps s_queue s_done]. repeat split; try apply keys_le_refl; try apply incl_refl; inc.
  - destruct (has (s_cbn s) c); inversion H; subst; cbn [s_cbr s_cbn s_deps s_queue s_done]; repeat split; try apply keys_le_refl; try apply incl_refl;
      try apply keys_le_cons; inc.
  - destruct (lookup (s_cbn s) c) as [[|v']|].
    + inversion H; subst. repeat split; try apply keys_le_refl; apply incl_refl.
    + destruct (v' =? v); inversion H; subst; repeat split; try apply keys_le_refl; apply incl_refl.
    + inversion H; subst; cbn [s_cbr s_cbn s_deps s_queue s_done]. repeat split; try apply keys_le_refl; try apply incl_refl. apply keys_le_cons.
Qed.

Lemma exec_frame cx : forall p s s' r, exec cx s p = (s', r) ->
  s_cbr s' = s_cbr s /\ s_done s' = s_done s /\ keys_le (s_cbn s) (s_cbn s') /\ incl (s_deps s) (s_deps s') /\
  incl (s_queue s) (s_queue s').
Proof.
  induction p as [|i p IH]; intros s s' r H; cbn [exec] in H.
  - inversion H; subst. repeat split; try apply keys_le_refl; apply incl_refl.
  - destruct (exec_op cx s (i_op i)) as [s1 [c|]] eqn:E.
    + inversion H; subst. eapply exec_op_frame; eauto.
    + destruct (exec_op_frame _ _ _ _ _ E) as (A1 & A2 & A3 & A4 & A5).
      destruct (IH _ _ _ H) as (B1 & B2 & B3 & B4 & B5).
      repeat split; try congruence.
      * eapply keys_le_trans; eauto. * eapply incl_tran; eauto. * eapply incl_tran; eauto.
Qed.

(* what a list of instructions has established once it has run to the end *)
Definition prog_done (ents : list entry) (p : list instr) (s : st) : Prop :=
  (forall k t rs, In (k, t, rs) (prog_edges p) -> has (s_cbr s) t = true /\ forall x, In x rs -> In (t, x) (s_deps s)) /\
  (forall c, In c (prog_mints p) -> has (s_cbn s) c = true) /\
  (forall i c k e, In i p -> i_op i = OMintModel c (Some k) -> nth_error ents k = Some e ->
                   exists ow, In (mkQ ow (e_name e) e) (s_queue s)) /\
  (forall i r c, In i p -> i_op i = ODep r c -> In (r, RCls c) (s_deps s)).

Lemma prog_done_ext ents p s s' : ext s s' -> prog_done ents p s -> prog_done ents p s'.
Proof.
  intros (X1 & X2 & X3 & X4) (D1 & D2 & D3 & D4). repeat split.
  - apply X1. eapply D1; eauto.
  - intros x Hx. apply X3. eapply D1; eauto.
  - intros c Hc. apply X2, D2, Hc.
  - intros i c k e Hi Ho Hn. destruct (D3 i c k e Hi Ho Hn) as [ow H]. exists ow. apply X4, H.
  - intros i r c Hi Ho. apply X3. eapply D4; eauto.
Qed.

Lemma exec_op_done cx s o s' : exec_op cx s o = (s', None) ->
  (forall k t rs, In (k, t, rs) (op_edge o) -> has (s_cbr s') t = true /\ forall x, In x rs -> In (t, x) (s_deps s')) /\
  (forall c, In c (op_mints o) -> has (s_cbn s') c = true) /\
  (forall c k e, o = OMintModel c (Some k) -> nth_error (c_ents cx) k = Some e -> exists ow, In (mkQ ow (e_name e) e) (s_queue s')) /\
  (forall r c, o = ODep r c -> In (r, RCls c) (s_deps s')).
Proof.
  intro H. destruct o; cbn [exec_op] in H; cbn [op_edge op_mints].
  - discriminate.
  - destruct (lookup (s_cbr s) t) as [pl|] eqn:L; [|discriminate]. inversion H; subst; cbn.
    repeat split; try (intros; contradiction); try (intros; discriminate).
    + destruct H0 as [H0|[]]. inversion H0; subst. apply has_lookup. eauto.
    + intros x Hx. destruct H0 as [H0|[]]. inversion H0; subst. unfold add_deps. apply in_or_app. left. apply in_map_iff. eauto.
  - destruct (lookup (s_cbr s) t) as [[e|]|] eqn:L; try discriminate.
    destruct (mem t (s_done s)); [|discriminate]. inversion H; subst; cbn.
    repeat split; try (intros; contradiction); try (intros; discriminate).
    + destruct H0 as [H0|[]]. inversion H0; subst. apply has_lookup. eauto.
    + intros x Hx. destruct H0 as [H0|[]]. inversion H0; subst. unfold add_deps. apply in_or_app. left. apply in_map_iff. eauto.
  - inversion H; subst; cbn. repeat split; try (intros; contradiction); try (intros; discriminate).
    intros r0 c0 E. inversion E; subst. now left.
  - destruct (has (s_cbn s) c) eqn:Hc; [discriminate|]. inversion H; subst; cbn.
    repeat split; try (intros; contradiction); try (intros; discriminate).
    + intros c0 [E|[]]. subst. rewrite has_cons, N.eqb_refl. reflexivity.
    + intros c0 k e E Hn. inversion E; subst. unfold push_entry. rewrite Hn. eexists. apply in_or_app. right. left. reflexivity.
  - destruct (lookup (s_cbn s) c) as [[|v']|] eqn:L.
    + discriminate.
    + destruct (v' =? v); [|discriminate]. inversion H; subst.
      repeat split; try (intros; contradiction); try (intros; discriminate).
      intros c0 [E|[]]. subst. apply has_lookup. eauto.
    + inversion H; subst; cbn. repeat split; try (intros; contradiction); try (intros; discriminate).
      intros c0 [E|[]]. subst. rewrite has_cons, N.eqb_refl. reflexivity.
Qed.

Lemma exec_ext cx p s s' r : exec cx s p = (s', r) -> ext s s'.
Proof.
  intro H. destruct (exec_frame _ _ _ _ _ H) as (A1 & A2 & A3 & A4 & A5).
  repeat split; auto. rewrite A1. apply keys_le_refl.
Qed.
Lemma exec_op_ext cx o s s' r : exec_op cx s o = (s', r) -> ext s s'.
Proof.
  intro H. destruct (exec_op_frame _ _ _ _ _ H) as (A1 & A2 & A3 & A4 & A5).
  repeat split; auto. rewrite A1. apply keys_le_refl.
Qed.

Lemma exec_done cx : forall p s s', exec cx s p = (s', None) -> prog_done (c_ents cx) p s'.
Proof.
  induction p as [|i p IH]; intros s s' H; cbn [exec] in H.
  - repeat split; cbn; intros; contradiction.
  - destruct (exec_op cx s (i_op i)) as [s1 [c|]] eqn:E; [discriminate|].
    pose proof (exec_ext _ _ _ _ _ H) as X. destruct X as (X1 & X2 & X3 & X4).
    destruct (exec_op_done _ _ _ _ E) as (O1 & O2 & O3 & O4).
    destruct (IH _ _ H) as (D1 & D2 & D3 & D4).
    unfold prog_done, prog_edges, prog_mints. cbn [flat_map]. repeat split.
    + apply in_app_or in H0. destruct H0 as [H0|H0]; [apply X1; eapply O1; eauto|eapply D1; eauto].
    + intros x Hx. apply in_app_or in H0. destruct H0 as [H0|H0]; [apply X3; eapply O1; eauto|eapply D1; eauto].
    + intros c Hc. apply in_app_or in Hc. destruct Hc as [Hc|Hc]; [apply X2, O2, Hc|apply D2, Hc].
    + intros i0 c k e [Hi|Hi] Ho Hn.
      * subst i0. destruct (O3 c k e Ho Hn) as [ow Hq]. exists ow. apply X4, Hq.
      * eapply D3; eauto.
    + intros i0 r c [Hi|Hi] Ho.
      * subst i0. apply X3. eapply O4; eauto.
      * eapply D4; eauto.
Qed.

(* ------------------------------------------------------------------ _propogate_removal *)
Definition handled (x : root) (cbr : list (ref * payload)) (cbn : list (cls * cinfo)) : Prop :=
  match x with RRef r => has cbr r = false | RCls c => has cbn c = false end.

Lemma handled_le x cbr cbn cbr' cbn' : keys_le cbr' cbr -> keys_le cbn' cbn -> handled x cbr cbn -> handled x cbr' cbn'.
Proof.
  intros H1 H2. destruct x; cbn; intro H.
  - destruct (has cbr' r) eqn:E; [|reflexivity]. apply H1 in E. congruence.
  - destruct (has cbn' c) eqn:E; [|reflexivity]. apply H2 in E. congruence.
Qed.

Lemma in_children D r x : In x (children D r) <-> In (r, x) D.
Proof.
  unfold children. rewrite in_map_iff. split.
  - intros [[r' x'] [E H]]. cbn in E. subst x'. apply filter_In in H. destruct H as [H1 H2]. cbn in H2. apply N.eqb_eq in H2. now subst.
  - intro H. exists (r, x). split; [reflexivity|]. apply filter_In. split; [exact H|]. cbn. apply N.eqb_refl.
Qed.

Lemma children_length D r : (length (children D r) <= length D)%nat.
Proof.
  unfold children. rewrite map_length. induction D as [|a D IH]; [cbn; lia|].
  cbn [filter]. match goal with |- context[if ?b then _ else _] => destruct b end; cbn [length] in *; lia.
Qed.

Lemma keys_le_del {A} (l : list (N * A)) k : keys_le (del k l) l.
Proof. intros k' H. eapply has_del_le; eauto. Qed.

Lemma pot_step (a b k w c : nat) : (a < b)%nat -> (c <= k)%nat -> (c + w + a * S k < S w + b * S k)%nat.
Proof.
  intros H1 H2. assert (a * S k + S k <= b * S k)%nat.
  { replace (a * S k + S k)%nat with (S a * S k)%nat by lia. apply Nat.mul_le_mono_r. lia. }
  lia.
Qed.

(* T loops_terminate, removal part: any fuel above the potential gives the same result *)
Lemma remove_wl_fuel D : forall f1 f2 work cbr cbn acc,
  (length work + length cbr * S (length D) < f1)%nat -> (length work + length cbr * S (length D) < f2)%nat ->
  remove_wl f1 D work cbr cbn acc = remove_wl f2 D work cbr cbn acc.
Proof.
  induction f1 as [|f1 IH]; intros f2 work cbr cbn acc H1 H2; [lia|].
  destruct f2 as [|f2]; [lia|]. cbn [remove_wl].
  destruct work as [|[r|c] w]; [reflexivity| |].
  - destruct (has cbr r) eqn:E.
    + pose proof (pot_step _ _ (length D) (length w) _ (del_length_lt cbr r E) (children_length D r)).
      apply IH; rewrite app_length; cbn [length] in *; unfold ref, cls in *; lia.
    + apply IH; cbn [length] in *; lia.
  - apply IH; cbn [length] in *; lia.
Qed.

Lemma remove_wl_spec D : forall fuel work cbr cbn acc cbr' cbn' acc',
  (length work + length cbr * S (length D) < fuel)%nat ->
  remove_wl fuel D work cbr cbn acc = (cbr', cbn', acc') ->
  keys_le cbr' cbr /\ keys_le cbn' cbn /\
  (forall x, In x work -> handled x cbr' cbn') /\
  (forall r, has cbr r = true -> has cbr' r = false -> In r acc' /\ forall x, In (r, x) D -> handled x cbr' cbn') /\
  (forall r, In r acc -> In r acc') /\
  (forall r, In r acc' -> In r acc \/ (has cbr r = true /\ has cbr' r = false)) /\
  (forall c, has cbn c = true -> has cbn' c = false ->
             In (RCls c) work \/ exists r, has cbr r = true /\ has cbr' r = false /\ In (r, RCls c) D).
Proof.
  induction fuel as [|fuel IH]; intros work cbr cbn acc cbr' cbn' acc' Hf H; [lia|].
  cbn [remove_wl] in H. destruct work as [|[r|c] w].
  - inversion H; subst. repeat split; try apply keys_le_refl; try (intros; contradiction); try congruence; auto.
  - destruct (has cbr r) eqn:E.
    + pose proof (del_length_lt cbr r E) as L1. pose proof (children_length D r) as L2.
      pose proof (pot_step _ _ (length D) (length w) _ L1 L2) as L3.
      assert (Hf' : (length (children D r ++ w) + length (del r cbr) * S (length D) < fuel)%nat)
        by (rewrite app_length; cbn [length] in *; unfold ref, cls in *; lia).
      destruct (IH _ _ _ _ _ _ _ Hf' H) as (I1 & I2 & I3 & I4 & I5 & I6 & I7).
      assert (K1 : keys_le cbr' cbr) by (eapply keys_le_trans; [exact I1|apply keys_le_del]).
      assert (Hr : has cbr' r = false).
      { destruct (has cbr' r) eqn:E'; [|reflexivity]. apply I1 in E'. rewrite has_del_same in E'. discriminate. }
      split; [exact K1|]. split; [exact I2|]. split; [|split; [|split; [|split]]].
      * intros x [Hx|Hx]; [subst x; exact Hr|apply I3; apply in_or_app; now right].
      * intros r0 H0 H1. destruct (N.eq_dec r r0) as [->|Hne].
        -- split; [apply I5; apply in_or_app; right; now left|].
           intros x Hx. apply I3. apply in_or_app. left. now apply in_children.
        -- apply I4; [rewrite has_del_other; auto|exact H1].
      * intros r0 H0. apply I5. apply in_or_app. now left.
      * intros r0 H0. destruct (I6 r0 H0) as [H1|[H1 H2]].
        -- apply in_app_or in H1. destruct H1 as [H1|[H1|[]]]; [now left|subst r0; right; split; [exact E|exact Hr]].
        -- right. split; [eapply has_del_le; eauto|exact H2].
      * intros c Hc1 Hc2. destruct (I7 c Hc1 Hc2) as [H1|[r0 (H1 & H2 & H3)]].
        -- apply in_app_or in H1. destruct H1 as [H1|H1].
           ++ right. exists r. split; [exact E|]. split; [exact Hr|now apply in_children].
           ++ left. now right.
        -- right. exists r0. split; [eapply has_del_le; eauto|]. split; assumption.
    + assert (Hf' : (length w + length cbr * S (length D) < fuel)%nat) by (cbn [length] in *; lia).
      destruct (IH _ _ _ _ _ _ _ Hf' H) as (I1 & I2 & I3 & I4 & I5 & I6 & I7).
      split; [exact I1|]. split; [exact I2|]. split; [|split; [|split; [|split]]]; auto.
      * intros x [Hx|Hx]; [|now apply I3]. subst x. cbn. destruct (has cbr' r) eqn:E'; [|reflexivity]. apply I1 in E'. congruence.
      * intros c Hc1 Hc2. destruct (I7 c Hc1 Hc2) as [H1|H1]; [left; now right|now right].
  - assert (Hf' : (length w + length cbr * S (length D) < fuel)%nat) by (cbn [length] in *; lia).
    destruct (IH _ _ _ _ _ _ _ Hf' H) as (I1 & I2 & I3 & I4 & I5 & I6 & I7).
    assert (K2 : keys_le cbn' cbn) by (eapply keys_le_trans; [exact I2|apply keys_le_del]).
    split; [exact I1|]. split; [exact K2|]. split; [|split; [|split; [|split]]]; auto.
    + intros x [Hx|Hx]; [|now apply I3]. subst x. cbn. destruct (has cbn' c) eqn:E'; [|reflexivity]. apply I2 in E'.
      rewrite has_del_same in E'. discriminate.
    + intros c0 Hc1 Hc2. destruct (N.eq_dec c c0) as [->|Hne]; [left; now left|].
      destruct (I7 c0) as [H1|H1]; [rewrite has_del_other; auto|exact Hc2|left; now right|now right].
Qed.

Lemma remove_roots_spec D work cbr cbn cbr' cbn' acc' :
  remove_roots D work cbr cbn = (cbr', cbn', acc') ->
  keys_le cbr' cbr /\ keys_le cbn' cbn /\
  (forall x, In x work -> handled x cbr' cbn') /\
  (forall r, has cbr r = true -> has cbr' r = false -> In r acc' /\ forall x, In (r, x) D -> handled x cbr' cbn') /\
  (forall r, In r acc' -> has cbr r = true /\ has cbr' r = false) /\
  (forall c, has cbn c = true -> has cbn' c = false ->
             In (RCls c) work \/ exists r, has cbr r = true /\ has cbr' r = false /\ In (r, RCls c) D).
Proof.
  unfold remove_roots, remove_fuel. intro H.
  assert (Hf : (length work + length cbr * S (length D) < S (length work + length cbr * S (length D)))%nat) by lia.
  destruct (remove_wl_spec D _ _ _ _ _ _ _ _ Hf H) as (I1 & I2 & I3 & I4 & I5 & I6 & I7).
  repeat split; auto; try (apply I4; assumption).
  - destruct (I6 r H0) as [[]|[A B]]. exact A.
  - destruct (I6 r H0) as [[]|[A B]]. exact B.
Qed.

Lemma model_errors_spec D : forall mes cbr cbn cbrF cbnF es,
  model_errors D mes cbr cbn = (cbrF, cbnF, es) ->
  keys_le cbrF cbr /\ keys_le cbnF cbn /\
  (forall q c x, In (q, c) mes -> In x (e_roots (q_entry q)) -> handled x cbrF cbnF) /\
  (forall r, has cbr r = true -> has cbrF r = false ->
             (exists e, In e es /\ In r (er_removed e)) /\ forall x, In (r, x) D -> handled x cbrF cbnF) /\
  (forall q c, In (q, c) mes -> exists e, In e es /\ er_create e = false /\ er_unit e = q_name q /\ er_cat e = c /\
                                          er_roots e = e_roots (q_entry q)) /\
  (forall e, In e es -> er_create e = false /\
                        (exists q c, In (q, c) mes /\ er_unit e = q_name q /\ er_roots e = e_roots (q_entry q) /\ er_cat e = c) /\
                        forall r, In r (er_removed e) -> has cbr r = true /\ has cbrF r = false) /\
  (forall c, has cbn c = true -> has cbnF c = false ->
             (exists q cat, In (q, cat) mes /\ In (RCls c) (e_roots (q_entry q))) \/
             exists r, has cbr r = true /\ has cbrF r = false /\ In (r, RCls c) D).
Proof.
  induction mes as [|[q c] mes IH]; intros cbr cbn cbrF cbnF es H; cbn [model_errors] in H.
  - inversion H; subst. repeat split; try apply keys_le_refl; try (intros; contradiction); try congruence.
  - destruct (remove_roots D (e_roots (q_entry q)) cbr cbn) as [[cbr1 cbn1] acc] eqn:R.
    destruct (model_errors D mes cbr1 cbn1) as [[cbr2 cbn2] es2] eqn:M. inversion H; subst. clear H.
    destruct (remove_roots_spec _ _ _ _ _ _ _ R) as (R1 & R2 & R3 & R4 & R5 & R6).
    destruct (IH _ _ _ _ _ M) as (I1 & I2 & I3 & I4 & I5 & I6 & I7).
    assert (K1 : keys_le cbrF cbr) by (eapply keys_le_trans; eauto).
    assert (K2 : keys_le cbnF cbn) by (eapply keys_le_trans; eauto).
    split; [exact K1|]. split; [exact K2|]. split; [|split; [|split; [|split]]].
    + intros q0 c0 x [E|Hin] Hx.
      * inversion E; subst. eapply handled_le; [exact I1|exact I2|]. apply R3, Hx.
      * eapply I3; eauto.
    + intros r Hr1 Hr2. destruct (has cbr1 r) eqn:E1.
      * destruct (I4 r E1 Hr2) as [[e [He1 He2]] Hc]. split; [exists e; split; [now right|exact He2]|exact Hc].
      * destruct (R4 r Hr1 E1) as [Ha Hc]. split.
        -- eexists. split; [now left|]. exact Ha.
        -- intros x Hx. eapply handled_le; [exact I1|exact I2|]. now apply Hc.
    + intros q0 c0 [E|Hin].
      * inversion E; subst. eexists. split; [now left|]. cbn. repeat split; reflexivity.
      * destruct (I5 q0 c0 Hin) as [e [He1 He2]]. exists e. split; [now right|exact He2].
    + intros e [E|Hin].
      * subst e. cbn. split; [reflexivity|]. split.
        -- exists q, c. split; [now left|]. repeat split; reflexivity.
        -- intros r Hr. destruct (R5 r Hr) as [A B]. split; [exact A|].
           destruct (has cbrF r) eqn:E'; [|reflexivity]. apply I1 in E'. congruence.
      * destruct (I6 e Hin) as (A & [q0 [c0 (B1 & B2)]] & C). split; [exact A|]. split.
        -- exists q0, c0. split; [now right|exact B2].
        -- intros r Hr. destruct (C r Hr) as [C1 C2]. split; [apply R1, C1|exact C2].
    + intros c0 Hc1 Hc2. destruct (has cbn1 c0) eqn:E1.
      * destruct (I7 c0 E1 Hc2) as [[q0 [cat (A & B)]]|[r (A & B & C)]].
        -- left. exists q0, cat. split; [now right|exact B].
        -- right. exists r. split; [apply R1, A|]. split; assumption.
      * destruct (R6 c0 Hc1 E1) as [A|[r (A & B & C)]].
        -- left. exists q, c. split; [now left|exact A].
        -- right. exists r. split; [exact A|]. split; [|exact C].
           destruct (has cbrF r) eqn:E'; [|reflexivity]. apply I1 in E'. congruence.
Qed.
