(* FsThm.v — proofs about Fs.v (C19, C06). *)
From Coq Require Import NArith List Bool Lia.
Import ListNotations.
Require Import OPC.gen.GenTables OPC.Uni OPC.Names OPC.NamesThm OPC.Fs.
Open Scope N_scope.

(* ---------- basic equality / membership lemmas ---------- *)

Lemma str_eqb_refl a : str_eqb a a = true.
Proof. apply str_eqb_eq. reflexivity. Qed.

Lemma path_eqb_eq a : forall b, path_eqb a b = true <-> a = b.
Proof.
  induction a as [|x a IH]; intros [|y b]; cbn [path_eqb]; split; intro H;
    try reflexivity; try discriminate.
  - apply andb_true_iff in H. destruct H as [H1 H2].
    apply str_eqb_eq in H1. apply IH in H2. subst. reflexivity.
  - injection H as Hx Ha. subst. apply andb_true_iff. split.
    + apply str_eqb_refl.
    + apply IH. reflexivity.
Qed.

Lemma path_eqb_refl a : path_eqb a a = true.
Proof. apply path_eqb_eq. reflexivity. Qed.

Lemma path_eqb_sym a b : path_eqb a b = path_eqb b a.
Proof.
  destruct (path_eqb a b) eqn:E1; destruct (path_eqb b a) eqn:E2; try reflexivity.
  - apply path_eqb_eq in E1. subst. rewrite path_eqb_refl in E2. discriminate.
  - apply path_eqb_eq in E2. subst. rewrite path_eqb_refl in E1. discriminate.
Qed.

Lemma mem_path_In p l : mem_path p l = true <-> In p l.
Proof.
  unfold mem_path. rewrite existsb_exists. split.
  - intros [x [Hin Hx]]. apply path_eqb_eq in Hx. subst. exact Hin.
  - intro Hin. exists p. split; [exact Hin | apply path_eqb_refl].
Qed.

Lemma mem_path_app p a b : mem_path p (a ++ b) = mem_path p a || mem_path p b.
Proof. unfold mem_path. apply existsb_app. Qed.

(* ---------- lookup over the operations ---------- *)

Lemma lookup_write t q c p :
  lookup_path (write t q c) p = if path_eqb q p then Some c else lookup_path t p.
Proof. reflexivity. Qed.

Lemma lookup_write_all id ps : forall t p,
  lookup_path (write_all id t ps) p = if mem_path p ps then Some (Gen id) else lookup_path t p.
Proof.
  induction ps as [|q ps IH]; intros t p.
  - reflexivity.
  - unfold write_all in *. cbn [fold_left]. rewrite IH. rewrite lookup_write.
    unfold mem_path. cbn [existsb]. fold (mem_path p ps).
    rewrite (path_eqb_sym p q).
    destruct (mem_path p ps); destruct (path_eqb q p); reflexivity.
Qed.

Lemma prefix_eq_true pre k p : path_eqb k p = true -> is_prefix_path pre k = is_prefix_path pre p.
Proof. intro H. apply path_eqb_eq in H. subst. reflexivity. Qed.

Lemma lookup_rmtree pre p : forall t,
  lookup_path (rmtree t pre) p = if is_prefix_path pre p then None else lookup_path t p.
Proof.
  induction t as [|[k c] t IH].
  - cbn. destruct (is_prefix_path pre p); reflexivity.
  - unfold rmtree in *. cbn [filter fst].
    destruct (is_prefix_path pre k) eqn:Ek; cbn [negb].
    + rewrite IH. cbn [lookup_path].
      destruct (path_eqb k p) eqn:Ekp.
      * rewrite <- (prefix_eq_true pre k p Ekp). rewrite Ek. reflexivity.
      * reflexivity.
    + cbn [lookup_path]. rewrite IH.
      destruct (path_eqb k p) eqn:Ekp.
      * rewrite <- (prefix_eq_true pre k p Ekp). rewrite Ek. reflexivity.
      * reflexivity.
Qed.

(* ---------- prefixes ---------- *)

Lemma prefix_app_cons pp a b rest :
  is_prefix_path (pp ++ [a]) (pp ++ b :: rest) = str_eqb a b.
Proof.
  induction pp as [|x pp IH].
  - cbn [app is_prefix_path]. apply andb_true_r.
  - cbn [app is_prefix_path]. rewrite str_eqb_refl, IH. reflexivity.
Qed.

Lemma mem_noprefix pre l p :
  (forall q, In q l -> is_prefix_path pre q = false) ->
  mem_path p l = true -> is_prefix_path pre p = false.
Proof. intros H Hm. apply H. apply mem_path_In. exact Hm. Qed.

Lemma package_noprefix fl pkg a q :
  str_eqb a f_init = false -> str_eqb a f_pytyped = false -> str_eqb a f_types = false ->
  In q (package_files fl pkg) -> is_prefix_path (pkg_prefix fl pkg ++ [a]) q = false.
Proof.
  intros H1 H2 H3 Hin. unfold package_files in Hin.
  apply in_app_or in Hin. destruct Hin as [Hin | Hin].
  - destruct Hin as [<- | []]. rewrite prefix_app_cons. exact H1.
  - apply in_app_or in Hin. destruct Hin as [Hin | Hin].
    + destruct fl; [destruct Hin | ..];
        (destruct Hin as [Hin | []]; subst q; rewrite prefix_app_cons; exact H2).
    + destruct Hin as [<- | []]. rewrite prefix_app_cons. exact H3.
Qed.

Lemma meta_single fl q : In q (metadata_files fl) -> exists f,
  q = [f] /\ (f = f_pyproject \/ f = f_setup \/ f = f_readme \/ f = f_gitignore).
Proof.
  intro Hin. destruct fl; cbn [metadata_files In] in Hin;
    repeat (destruct Hin as [Hin | Hin]; [subst q; eexists; split; [reflexivity | tauto] | ]);
    destruct Hin.
Qed.

Lemma meta_noprefix fl pkg a q :
  str_eqb a f_pyproject = false -> str_eqb a f_setup = false ->
  str_eqb a f_readme = false -> str_eqb a f_gitignore = false ->
  In q (metadata_files fl) -> is_prefix_path (pkg_prefix fl pkg ++ [a]) q = false.
Proof.
  intros H1 H2 H3 H4 Hin.
  destruct (meta_single fl q Hin) as [f [-> Hf]].
  destruct fl; cbn [pkg_prefix app is_prefix_path];
    try (destruct Hin; fail);
    try (apply andb_false_r).
Qed.

Lemma model_prefix fl pkg d a q :
  In q (model_files fl pkg d) -> is_prefix_path (pkg_prefix fl pkg ++ [a]) q = str_eqb a d_models_dir.
Proof.
  intro Hin. unfold model_files in Hin. apply in_app_or in Hin. destruct Hin as [Hin | Hin].
  - apply in_map_iff in Hin. destruct Hin as [m [<- _]]. apply prefix_app_cons.
  - destruct Hin as [<- | []]. apply prefix_app_cons.
Qed.

Lemma client_noprefix fl pkg a q :
  str_eqb a f_client = false -> str_eqb a f_errors = false ->
  In q (client_files fl pkg) -> is_prefix_path (pkg_prefix fl pkg ++ [a]) q = false.
Proof.
  intros H1 H2 Hin. unfold client_files in Hin.
  destruct Hin as [<- | [<- | []]]; rewrite prefix_app_cons; assumption.
Qed.

Lemma api_prefix fl pkg d a q :
  In q (api_files fl pkg d) -> is_prefix_path (pkg_prefix fl pkg ++ [a]) q = str_eqb a d_api_dir.
Proof.
  intro Hin. unfold api_files in Hin. destruct Hin as [<- | Hin].
  - apply prefix_app_cons.
  - apply in_flat_map in Hin. destruct Hin as [te [_ Hin]].
    destruct Hin as [<- | Hin].
    + apply prefix_app_cons.
    + apply in_map_iff in Hin. destruct Hin as [e [<- _]]. apply prefix_app_cons.
Qed.

(* ---------- theorems ---------- *)

Theorem no_overwrite_untouched : forall fl pkg d id t,
  build fl pkg false true d id t = (t, true).
Proof. intros. reflexivity. Qed.

Theorem build_postcondition : forall fl pkg d id t p,
  lookup_path (build_steps fl pkg d id t) p =
    if mem_path p (gen_files fl pkg d) then Some (Gen id)
    else if managed fl pkg p then None else lookup_path t p.
Proof.
  intros fl pkg d id t p.
  unfold build_steps, gen_files, managed. cbv zeta.
  repeat (rewrite lookup_write_all || rewrite lookup_rmtree).
  rewrite !mem_path_app.
  assert (Hpk : mem_path p (package_files fl pkg) = true ->
                is_prefix_path (pkg_prefix fl pkg ++ [d_models_dir]) p = false /\
                is_prefix_path (pkg_prefix fl pkg ++ [d_api_dir]) p = false).
  { intro Hm. split; (eapply mem_noprefix; [| exact Hm]); intros q Hq;
      apply package_noprefix; try exact Hq; vm_compute; reflexivity. }
  assert (Hme : mem_path p (metadata_files fl) = true ->
                is_prefix_path (pkg_prefix fl pkg ++ [d_models_dir]) p = false /\
                is_prefix_path (pkg_prefix fl pkg ++ [d_api_dir]) p = false).
  { intro Hm. split; (eapply mem_noprefix; [| exact Hm]); intros q Hq;
      apply meta_noprefix; try exact Hq; vm_compute; reflexivity. }
  assert (Hmo : mem_path p (model_files fl pkg d) = true ->
                is_prefix_path (pkg_prefix fl pkg ++ [d_api_dir]) p = false).
  { intro Hm. eapply mem_noprefix; [| exact Hm]. intros q Hq.
    rewrite (model_prefix fl pkg d _ q Hq). vm_compute. reflexivity. }
  assert (Hcl : mem_path p (client_files fl pkg) = true ->
                is_prefix_path (pkg_prefix fl pkg ++ [d_api_dir]) p = false).
  { intro Hm. eapply mem_noprefix; [| exact Hm]. intros q Hq.
    apply client_noprefix; try exact Hq; vm_compute; reflexivity. }
  destruct (mem_path p (package_files fl pkg));
  destruct (mem_path p (metadata_files fl));
  destruct (mem_path p (model_files fl pkg d));
  destruct (mem_path p (client_files fl pkg));
  destruct (mem_path p (api_files fl pkg d));
  destruct (is_prefix_path (pkg_prefix fl pkg ++ [d_models_dir]) p);
  destruct (is_prefix_path (pkg_prefix fl pkg ++ [d_api_dir]) p);
  cbn [orb]; try reflexivity;
  try (destruct (Hpk eq_refl); discriminate);
  try (destruct (Hme eq_refl); discriminate);
  try (specialize (Hmo eq_refl); discriminate);
  try (specialize (Hcl eq_refl); discriminate).
Qed.

Lemma run_app fl pkg h1 h2 t : run fl pkg (h1 ++ h2) t = run fl pkg h2 (run fl pkg h1 t).
Proof. unfold run. apply fold_left_app. Qed.

Theorem overwrite_converges : forall fl pkg h t id d p,
  managed fl pkg p = true ->
  lookup_path (run fl pkg (h ++ [Build id d]) t) p =
    if mem_path p (gen_files fl pkg d) then Some (Gen id) else None.
Proof.
  intros fl pkg h t id d p Hm.
  rewrite run_app. unfold run at 1. cbn [fold_left run_step].
  unfold build. cbn [andb negb fst].
  rewrite build_postcondition. rewrite Hm. reflexivity.
Qed.

Definition is_user (s : step) : bool := match s with UserWrite _ _ => true | Build _ _ => false end.

Lemma run_congr fl pkg p :
  managed fl pkg p = false ->
  forall h t t',
  (forall id d, In (Build id d) h -> mem_path p (gen_files fl pkg d) = false) ->
  lookup_path t p = lookup_path t' p ->
  lookup_path (run fl pkg h t) p = lookup_path (run fl pkg (filter is_user h) t') p.
Proof.
  intros Hm. induction h as [|s h IH]; intros t t' Hh Ht.
  - exact Ht.
  - destruct s as [id d | q u].
    + cbn [filter is_user]. unfold run. cbn [fold_left]. fold (run fl pkg h).
      apply IH.
      * intros id' d' Hin. apply (Hh id' d'). right. exact Hin.
      * cbn [run_step]. unfold build. cbn [andb negb fst].
        rewrite build_postcondition. rewrite Hm.
        rewrite (Hh id d (or_introl eq_refl)). exact Ht.
    + cbn [filter is_user]. unfold run. cbn [fold_left].
      fold (run fl pkg h). fold (run fl pkg (filter is_user h)).
      apply IH.
      * intros id' d' Hin. apply (Hh id' d'). right. exact Hin.
      * cbn [run_step]. rewrite !lookup_write. rewrite Ht. reflexivity.
Qed.

Theorem user_files_untouched : forall fl pkg h t p,
  managed fl pkg p = false ->
  (forall id d, In (Build id d) h -> mem_path p (gen_files fl pkg d) = false) ->
  lookup_path (run fl pkg h t) p = lookup_path (run fl pkg (filter is_user h) t) p.
Proof.
  intros fl pkg h t p Hm Hh. apply run_congr; auto.
Qed.

Definition safe_chars (c : str) : bool := forallb (fun x => negb ((x =? 47) || (x =? 92) || (x =? 0))) c.

Lemma str_eqb_len a b : str_eqb a b = true -> length a = length b.
Proof. intro H. apply str_eqb_eq in H. subst. reflexivity. Qed.

Lemma safe_ext m : safe_chars m = true -> safe_component (m ++ ext_py) = true.
Proof.
  intro Hm. unfold safe_component.
  assert (Hlen : (length (m ++ ext_py) >= 3)%nat).
  { rewrite app_length. cbn [ext_py length]. lia. }
  destruct (str_eqb (m ++ ext_py) []) eqn:E1.
  { apply str_eqb_len in E1. cbn [length] in E1. lia. }
  destruct (str_eqb (m ++ ext_py) [46]) eqn:E2.
  { apply str_eqb_len in E2. cbn [length] in E2. lia. }
  destruct (str_eqb (m ++ ext_py) [46;46]) eqn:E3.
  { apply str_eqb_len in E3. cbn [length] in E3. lia. }
  cbn [negb andb].
  rewrite forallb_app. unfold safe_chars in Hm. rewrite Hm.
  vm_compute. reflexivity.
Qed.

Theorem writes_confined : forall fl pkg d p,
  safe_component pkg = true ->
  forallb safe_chars (d_models d) = true ->
  forallb (fun te => safe_component (fst te) && forallb safe_chars (snd te)) (d_tags d) = true ->
  In p (gen_files fl pkg d) -> forallb safe_component p = true.
Proof.
  intros fl pkg d p Hpkg Hmod Htag Hin.
  assert (Hpp : forallb safe_component (pkg_prefix fl pkg) = true).
  { destruct fl; cbn [pkg_prefix forallb]; rewrite ?Hpkg; reflexivity. }
  assert (Hc : forall f, safe_component f = true ->
               forallb safe_component (pkg_prefix fl pkg ++ [f]) = true).
  { intros f Hf. rewrite forallb_app, Hpp. cbn [forallb]. rewrite Hf. reflexivity. }
  assert (Hc2 : forall f g, safe_component f = true -> safe_component g = true ->
               forallb safe_component (pkg_prefix fl pkg ++ [f; g]) = true).
  { intros f g Hf Hg. rewrite forallb_app, Hpp. cbn [forallb]. rewrite Hf, Hg. reflexivity. }
  assert (Hc3 : forall f g k, safe_component f = true -> safe_component g = true ->
               safe_component k = true ->
               forallb safe_component (pkg_prefix fl pkg ++ [f; g; k]) = true).
  { intros f g k Hf Hg Hk. rewrite forallb_app, Hpp. cbn [forallb].
    rewrite Hf, Hg, Hk. reflexivity. }
  unfold gen_files in Hin. rewrite !in_app_iff in Hin.
  destruct Hin as [Hin | [Hin | [Hin | [Hin | Hin]]]].
  - (* package files *)
    unfold package_files in Hin. rewrite !in_app_iff in Hin.
    destruct Hin as [Hin | [Hin | Hin]].
    + destruct Hin as [<- | []]. apply Hc. vm_compute. reflexivity.
    + destruct fl; [destruct Hin | ..];
        (destruct Hin as [Hin | []]; subst p; apply Hc; vm_compute; reflexivity).
    + destruct Hin as [<- | []]. apply Hc. vm_compute. reflexivity.
  - (* metadata files *)
    destruct (meta_single fl p Hin) as [f [-> Hf]].
    cbn [forallb]. rewrite andb_true_r.
    destruct Hf as [-> | [-> | [-> | ->]]]; vm_compute; reflexivity.
  - (* model files *)
    unfold model_files in Hin. apply in_app_or in Hin. destruct Hin as [Hin | Hin].
    + apply in_map_iff in Hin. destruct Hin as [m [<- Hm]].
      apply Hc2.
      * vm_compute. reflexivity.
      * apply safe_ext. rewrite forallb_forall in Hmod. apply Hmod. exact Hm.
    + destruct Hin as [<- | []]. apply Hc2; vm_compute; reflexivity.
  - (* client files *)
    unfold client_files in Hin.
    destruct Hin as [<- | [<- | []]]; apply Hc; vm_compute; reflexivity.
  - (* api files *)
    unfold api_files in Hin. destruct Hin as [<- | Hin].
    + apply Hc2; vm_compute; reflexivity.
    + apply in_flat_map in Hin. destruct Hin as [te [Hte Hin]].
      rewrite forallb_forall in Htag. specialize (Htag te Hte).
      apply andb_true_iff in Htag. destruct Htag as [Ht1 Ht2].
      destruct Hin as [<- | Hin].
      * apply Hc3; try exact Ht1; vm_compute; reflexivity.
      * apply in_map_iff in Hin. destruct Hin as [e [<- He]].
        apply Hc3; try exact Ht1.
        -- vm_compute. reflexivity.
        -- apply safe_ext. rewrite forallb_forall in Ht2. apply Ht2. exact He.
Qed.

Example history_nonvacuous : exists h p,
  forallb (user_step_ok FPoetry [112]) h = true /\ managed FPoetry [112] p = true /\
  lookup_path (run FPoetry [112] h []) p = None /\ length h = 4%nat.
Proof.
  exists [ UserWrite [[112]; [120]] 7;
           Build 1 {| d_models := [[97]]; d_tags := [] |};
           UserWrite [[121]] 8;
           Build 2 {| d_models := []; d_tags := [] |} ].
  exists [[112]; d_models_dir; [97] ++ ext_py].
  repeat split; vm_compute; reflexivity.
Qed.

(* sanity: in the witness history the stale module really existed after the first generation *)
Example history_stale_existed :
  lookup_path (run FPoetry [112]
     [ UserWrite [[112]; [120]] 7; Build 1 {| d_models := [[97]]; d_tags := [] |} ] [])
     [[112]; d_models_dir; [97] ++ ext_py] = Some (Gen 1).
Proof. vm_compute. reflexivity. Qed.

Print Assumptions no_overwrite_untouched.
Print Assumptions build_postcondition.
Print Assumptions overwrite_converges.
Print Assumptions user_files_untouched.
Print Assumptions writes_confined.
Print Assumptions history_nonvacuous.

(* ---------- link to Names: path components derived from document text are safe (C19 writes_confined) ---------- *)
Lemma path_char_facts x : path_char x = true -> x <> 0 /\ x <> 46 /\ x <> 47 /\ x <> 92.
Proof.
  unfold path_char. intro H. apply negb_true_iff in H.
  repeat split; intro E; subst x; vm_compute in H; discriminate.
Qed.

Lemma path_chars_safe s : forallb path_char s = true -> safe_chars s = true.
Proof.
  unfold safe_chars. intro H. apply forallb_forall. intros x Hx.
  rewrite forallb_forall in H. destruct (path_char_facts x (H _ Hx)) as (H0 & _ & H47 & H92).
  apply negb_true_iff. apply orb_false_iff. split; [apply orb_false_iff; split|]; now apply N.eqb_neq.
Qed.

Theorem derived_component_safe value prefix :
  good_prefix prefix = true -> forallb path_char prefix = true ->
  safe_component (python_identifier value prefix false) = true.
Proof.
  intros Hg Hp.
  pose proof (python_identifier_path_chars value prefix Hp) as Hc.
  pose proof (python_identifier_nonempty value prefix Hg) as Hne.
  set (r := python_identifier value prefix false) in *.
  unfold safe_component.
  assert (H1: str_eqb r [] = false).
  { destruct (str_eqb r []) eqn:E; [|reflexivity]. apply str_eqb_eq in E. contradiction. }
  assert (Hno46: forall x, In x r -> x <> 46).
  { intros x Hx. rewrite forallb_forall in Hc. now destruct (path_char_facts x (Hc _ Hx)) as (_ & H & _). }
  assert (H2: str_eqb r [46] = false).
  { destruct (str_eqb r [46]) eqn:E; [|reflexivity]. apply str_eqb_eq in E. exfalso. apply (Hno46 46); [rewrite E; now left | reflexivity]. }
  assert (H3: str_eqb r [46;46] = false).
  { destruct (str_eqb r [46;46]) eqn:E; [|reflexivity]. apply str_eqb_eq in E. exfalso. apply (Hno46 46); [rewrite E; now left | reflexivity]. }
  rewrite H1, H2, H3. cbn [negb andb].
  pose proof (path_chars_safe r Hc) as Hs. unfold safe_chars in Hs. exact Hs.
Qed.

Theorem derived_module_safe value prefix :
  forallb path_char prefix = true -> safe_chars (python_identifier value prefix false) = true.
Proof. intro Hp. apply path_chars_safe, python_identifier_path_chars, Hp. Qed.
