(* FsThm.v — proofs about Fs.v (C19, C06). *)
From Coq Require Import NArith List Bool Lia.
Import ListNotations.
Require Import OPC.gen.GenTables OPC.Uni OPC.Names OPC.NamesThm OPC.Fs.
Open Scope N_scope.

(* STATEMENTS TO PROVE (keep the statements exactly as written):

Theorem no_overwrite_untouched : forall fl pkg d id t,
  build fl pkg false true d id t = (t, true).

Theorem build_postcondition : forall fl pkg d id t p,
  lookup_path (build_steps fl pkg d id t) p =
    if mem_path p (gen_files fl pkg d) then Some (Gen id)
    else if managed fl pkg p then None else lookup_path t p.

Theorem overwrite_converges : forall fl pkg h t id d p,
  managed fl pkg p = true ->
  lookup_path (run fl pkg (h ++ [Build id d]) t) p =
    if mem_path p (gen_files fl pkg d) then Some (Gen id) else None.

Definition is_user (s : step) : bool := match s with UserWrite _ _ => true | Build _ _ => false end.

Theorem user_files_untouched : forall fl pkg h t p,
  managed fl pkg p = false ->
  (forall id d, In (Build id d) h -> mem_path p (gen_files fl pkg d) = false) ->
  lookup_path (run fl pkg h t) p = lookup_path (run fl pkg (filter is_user h) t) p.

Definition safe_chars (c : str) : bool := forallb (fun x => negb ((x =? 47) || (x =? 92) || (x =? 0))) c.

Theorem writes_confined : forall fl pkg d p,
  safe_component pkg = true ->
  forallb safe_chars (d_models d) = true ->
  forallb (fun te => safe_component (fst te) && forallb safe_chars (snd te)) (d_tags d) = true ->
  In p (gen_files fl pkg d) -> forallb safe_component p = true.

Example history_nonvacuous : exists h p,
  forallb (user_step_ok FPoetry [112]) h = true /\ managed FPoetry [112] p = true /\
  lookup_path (run FPoetry [112] h []) p = None /\ length h = 4%nat.
  (* suggested witness: generate doc 1 with model "a", user writes a file outside, generate doc 2 without model "a",
     p = the stale module path p/models/a.py *)
*)
