(* RegistryThm.v -- sticky registration is order independent, last-registration-wins is not (C12, order part) *)
From Coq Require Import NArith List Bool Lia Permutation.
Import ListNotations.
Require Import OPC.Uni OPC.Registry.
Open Scope N_scope.

Definition raised (uses : list body_use) (c : N) : bool := existsb (fun u => (u_cls u =? c) && u_files u) uses.

Lemma sticky_fold uses : forall r c, reg_get (fold_left sticky_step uses r) c = raised uses c || reg_get r c.
Proof.
  induction uses as [|u uses IH]; intros r c; [reflexivity|].
  cbn [fold_left raised existsb]. rewrite IH. unfold sticky_step.
  destruct (u_files u) eqn:F.
  - cbn [reg_set reg_get]. destruct (N.eqb_spec (u_cls u) c) as [E|E]; cbn [andb orb].
    + now rewrite !orb_true_r.
    + fold (raised uses c). reflexivity.
  - rewrite andb_false_r. reflexivity.
Qed.

(* the flag of a class after all paths are parsed = some multipart use exists: a property of the SET of uses *)
Theorem sticky_final_spec uses c : reg_get (sticky_final uses) c = raised uses c.
Proof. unfold sticky_final. rewrite sticky_fold. cbn [reg_get]. apply orb_false_r. Qed.

Lemma raised_perm uses uses' c : Permutation uses uses' -> raised uses c = raised uses' c.
Proof.
  unfold raised. induction 1 as [|x l l' _ IH|x y l|l l' l'' _ IH1 _ IH2]; cbn [existsb].
  - reflexivity.
  - now rewrite IH.
  - destruct ((u_cls x =? c) && u_files x), ((u_cls y =? c) && u_files y); reflexivity.
  - now rewrite IH1.
Qed.

Theorem sticky_order_independent uses uses' c : Permutation uses uses' -> reg_get (sticky_final uses) c = reg_get (sticky_final uses') c.
Proof. intro H. rewrite !sticky_final_spec. now apply raised_perm. Qed.

(* last registration wins: two orders of the same uses, different result *)
Theorem overwrite_refuted : exists uses uses' c, Permutation uses uses' /\ reg_get (overwrite_final uses) c <> reg_get (overwrite_final uses') c.
Proof.
  exists [ {| u_cls := 1; u_files := true |}; {| u_cls := 1; u_files := false |} ],
         [ {| u_cls := 1; u_files := false |}; {| u_cls := 1; u_files := true |} ], 1.
  split; [apply perm_swap|]. vm_compute. discriminate.
Qed.

Lemma find_app' {A} (f : A -> bool) l l' : find f (l ++ l') = match find f l with Some x => Some x | None => find f l' end.
Proof. induction l as [|a l IH]; cbn [app find]; [reflexivity|]. destruct (f a); [reflexivity|exact IH]. Qed.

(* ... it is order independent under the guard that all uses of a class agree *)
Lemma overwrite_fold uses : forall r c,
  reg_get (fold_left overwrite_step uses r) c =
  match find (fun u => u_cls u =? c) (rev uses) with Some u => u_files u | None => reg_get r c end.
Proof.
  induction uses as [|u uses IH]; intros r c; [reflexivity|].
  cbn [fold_left rev]. rewrite IH. rewrite find_app'.
  destruct (find (fun u0 => u_cls u0 =? c) (rev uses)); [reflexivity|].
  cbn [find overwrite_step reg_set reg_get]. destruct (u_cls u =? c); reflexivity.
Qed.

Lemma find_in_consistent uses c u : uses_consistent uses = true ->
  find (fun v => u_cls v =? c) uses = Some u -> forall v, In v uses -> u_cls v = c -> u_files v = u_files u.
Proof.
  intros Hc Hf v Hv Hvc. apply find_some in Hf. destruct Hf as [Hu Huc]. apply N.eqb_eq in Huc.
  unfold uses_consistent in Hc. rewrite forallb_forall in Hc. specialize (Hc v Hv). rewrite forallb_forall in Hc.
  specialize (Hc u Hu). rewrite Hvc, Huc, N.eqb_refl in Hc. cbn in Hc. now apply eqb_prop in Hc.
Qed.

Lemma consistent_perm uses uses' : Permutation uses uses' -> uses_consistent uses = true -> uses_consistent uses' = true.
Proof.
  intros Hp Hc. unfold uses_consistent in *. rewrite forallb_forall in *. intros u Hu. rewrite forallb_forall. intros v Hv.
  assert (Hu' : In u uses) by (eapply Permutation_in; [apply Permutation_sym; exact Hp|exact Hu]).
  assert (Hv' : In v uses) by (eapply Permutation_in; [apply Permutation_sym; exact Hp|exact Hv]).
  specialize (Hc u Hu'). rewrite forallb_forall in Hc. now apply Hc.
Qed.

Theorem overwrite_order_independent_if_consistent uses uses' c :
  Permutation uses uses' -> uses_consistent uses = true ->
  reg_get (overwrite_final uses) c = reg_get (overwrite_final uses') c.
Proof.
  intros Hp Hc. unfold overwrite_final. rewrite !overwrite_fold. cbn [reg_get].
  assert (Hc' : uses_consistent uses' = true) by (eapply consistent_perm; eassumption).
  assert (Hr : forall l, uses_consistent l = true -> uses_consistent (rev l) = true).
  { intros l H. eapply consistent_perm; [apply Permutation_rev|exact H]. }
  destruct (find (fun u => u_cls u =? c) (rev uses)) as [u|] eqn:F1; destruct (find (fun u => u_cls u =? c) (rev uses')) as [u'|] eqn:F2.
  - pose proof (find_some _ _ F2) as [Hin' Hc2]. apply N.eqb_eq in Hc2.
    symmetry. apply (find_in_consistent (rev uses) c u (Hr _ Hc) F1); [|exact Hc2].
    eapply Permutation_in; [|exact Hin']. eapply perm_trans; [apply Permutation_sym, Permutation_rev|].
    eapply perm_trans; [apply Permutation_sym; exact Hp|apply Permutation_rev].
  - exfalso. pose proof (find_some _ _ F1) as [Hin Hc1].
    assert (Hn : (u_cls u =? c) = false); [|congruence]. apply (find_none _ _ F2 u).
    eapply Permutation_in; [|exact Hin]. eapply perm_trans; [apply Permutation_sym, Permutation_rev|].
    eapply perm_trans; [exact Hp|apply Permutation_rev].
  - exfalso. pose proof (find_some _ _ F2) as [Hin Hc1].
    assert (Hn : (u_cls u' =? c) = false); [|congruence]. apply (find_none _ _ F1 u').
    eapply Permutation_in; [|exact Hin]. eapply perm_trans; [apply Permutation_sym, Permutation_rev|].
    eapply perm_trans; [apply Permutation_sym; exact Hp|apply Permutation_rev].
  - reflexivity.
Qed.
